package main

import (
	"bytes"
	"fmt"
	"sort"
	"strings"

	square "github.com/celestiaorg/go-square/v2"
	"github.com/celestiaorg/go-square/v2/share"
	"github.com/celestiaorg/go-square/v2/tx"
)

func init() {
	streams["BUILDER"] = streamBuilder
	streamRules["BUILDER"] = "tx lists (ordinary txs with boundary lengths, blob txs with 1-3 blobs over a small namespace pool, share versions 0/1, sizes dense in refusals) x maxSquareSize x threshold: Build, Construct(kept), executable Spec layout, Deconstruct, ParseShares, TxShareRange/BlobShareRange for every index, WrappedPFBs; oracles for C01 C02 C03 C04 C06 C07 C12 C20; non-trivial = distinct case with >= 1 blob and (>= 1 refusal or >= 2 namespaces) Added after the seeded rounds: structured payloads, look-alike namespaces, non-canonical and twin blob txs, duplicates, empty txs anywhere, thresholds 1 / 2^20 / 2^31-1, special sizes, many-blob txs on share boundaries, huge txs (2^20, 2^21 bytes), a 16385-share blob at max 256, 20000 txs, >1000 sequences (the last four with Go-side oracles only in the quick tier), probes with blobs NewBlob must refuse, Go-side greedy selection and side recomputed from the rules, predicted vs produced share counts."
	streams["BHIST"] = streamBHist
	streamRules["BHIST"] = "Builder histories over {AppendTx, AppendBlobTx (accepted/refused), Export, FindTxShareRange, FindBlobStartingIndex, BlobShareLength, GetWrappedPFB}: CurrentSize and accept flag after every op; oracles: estimate >= occupied shares, refusal iff reference estimate > max^2, refused append leaves the builder unchanged, Export never errs (C06); final export == export of a fresh builder fed the accepted appends (C14); non-trivial = distinct history with a refusal or an export between appends Added: in-memory blob tx route, hand-built blob txs without blobs, every query compared with a fresh builder fed the accepted appends (C04, C12), final export vs the specified layout (C07), predicted vs produced share count of every accepted blob (C13)."
}

type genTx struct {
	raw     []byte
	isBlob  bool
	inner   []byte
	blobs   []blobSpec
	canon   []byte // canonical encoding when raw is a non-canonically encoded blob tx (nil otherwise)
	noBlobs bool   // a hand-built BlobTx without blobs (only offered through the Builder API)
}

type sqCase struct {
	max, thr int
	txs      []genTx
	class    string // "" | "compact-ns-blob" | "empty-tx"
	desc     string
}

func (c *Ctx) genSquareCase(maxChoices []int) sqCase {
	sc := sqCase{}
	sc.max = c.rng.Pick(maxChoices)
	sc.thr = c.rng.Pick([]int{1, 1, 2, 3, 5, 8, 63, 64, 65, 128, 1 << 20, 1<<31 - 1}) // incl. thresholds larger than any blob
	capShares := sc.max * sc.max
	pool := c.userNamespaces(c.rng.Range(1, 4))
	k := c.rng.Range(0, 12)
	if c.rng.Chance(1, 15) {
		k = 0
	}
	manyEqual := c.rng.Chance(1, 12) // >= 13 blobs of few namespaces: exercises sort stability
	var usedLens []struct {
		n  int
		v1 bool
	}
	if manyEqual {
		k = c.rng.Range(7, 12)
	}
	kf1 := c.rng.Chance(1, 40)
	var d []string
	for i := 0; i < k; i++ {
		if !manyEqual && c.rng.Chance(1, 2) {
			n := c.compactLen()
			if c.rng.Chance(1, 3) && capShares >= 4 { // sized relative to the square
				n = c.rng.Range(1, capShares*478/3)
			}
			if n > 60000 {
				n = 60000
			}
			if capShares >= 256 && c.rng.Chance(1, 25) {
				n = c.rng.Pick([]int{255, 256, 65535, 65536, 65537}) // single values guards tend to get wrong
			}
			sc.txs = append(sc.txs, genTx{raw: c.normalTx(n)})
			d = append(d, fmt.Sprintf("t%d", n))
			continue
		}
		nb := c.rng.Range(1, 3)
		if manyEqual {
			nb = 2
		}
		specs := make([]blobSpec, nb)
		var bd []string
		for j := range specs {
			maxSh := capShares / 2
			if maxSh < 1 {
				maxSh = 1
			}
			if maxSh > 40 {
				maxSh = 40
			}
			n := c.sparseLen(maxSh)
			if manyEqual {
				n = c.rng.Range(1, 600)
			} else if capShares >= 256 && c.rng.Chance(1, 25) {
				n = c.rng.Pick([]int{255, 256, 65535, 65536, 65537})
			}
			ns := pool[c.rng.Intn(len(pool))]
			if kf1 && c.rng.Chance(1, 3) {
				if c.rng.Bool() {
					ns = share.TxNamespace
				} else {
					ns = share.PayForBlobNamespace
				}
				sc.class = "compact-ns-blob"
			}
			v1 := c.rng.Chance(1, 3)
			if len(usedLens) > 0 && c.rng.Chance(1, 6) {
				// the exact data length of an earlier blob of this list under the OTHER share version (the two
				// need different share counts when the length lies in a signer window)
				u := usedLens[c.rng.Intn(len(usedLens))]
				n, v1 = u.n, !u.v1
			} else if c.rng.Chance(1, 12) {
				n = c.rng.Range(459, 478) + 482*c.rng.Pick([]int{0, 0, 1, 2, 5})
			}
			usedLens = append(usedLens, struct {
				n  int
				v1 bool
			}{n, v1})
			specs[j] = c.randBlob(ns, n, v1)
			if c.rng.Chance(1, 10) {
				// probe: blobs that NewBlob must refuse (empty non-nil signer under version 0, signers of 19 / 21
				// bytes under version 1). On the unchanged tree they are refused and nothing happens; if a change
				// makes one acceptable it flows into the square like any other blob and every oracle sees it
				probe := specs[j]
				if c.rng.Bool() {
					// in the 20-byte window below a sparse share boundary, where a signer (or a wrongly assumed one)
					// changes the share count
					probe.data = c.payload(478 + 482*c.rng.Range(0, 2) - c.rng.Range(0, 19))
				}
				switch c.rng.Intn(3) {
				case 0:
					probe.ver, probe.signer = 0, []byte{}
				case 1:
					probe.ver, probe.signer = 1, c.rng.Bytes(19)
				default:
					probe.ver, probe.signer = 1, c.rng.Bytes(21)
				}
				if _, err := probe.blob(); err == nil {
					specs[j] = probe
				}
			}
			bd = append(bd, fmt.Sprintf("v%d:%d", specs[j].ver, n))
		}
		// inner-tx sizes: a few classes plus windows in which the wrapped PFB (inner + ~13 bytes) ends
		// within a few bytes of a compact share boundary (474, 474+478), where the worst-case and the
		// real index encodings fall on different sides
		filler := c.rng.Pick([]int{0, 10, 100, 300, 1000})
		switch c.rng.Intn(4) {
		case 0:
			filler = c.rng.Range(440, 470)
		case 1:
			filler = c.rng.Range(915, 950)
		}
		raw := c.makeBlobTx(specs, filler)
		var canon []byte
		if c.rng.Chance(1, 14) {
			// the same blob tx in a non-canonical protobuf encoding (still a blob tx for UnmarshalBlobTx):
			// type id first, or an unknown field after it
			suffix := []byte{0x1a, 0x04, 'B', 'L', 'O', 'B'}
			if bytes.HasSuffix(raw, suffix) {
				alt := append([]byte(nil), raw...)
				if c.rng.Bool() {
					alt = append(append([]byte(nil), suffix...), raw[:len(raw)-len(suffix)]...)
					bd = append(bd, "typeid-first")
				} else {
					alt = append(alt, 0x78, 0x01)
					bd = append(bd, "unknown-field")
				}
				if b2, is, err := tx.UnmarshalBlobTx(alt); is && err == nil && len(b2.Blobs) == len(specs) {
					canon, raw = raw, alt
				}
			}
		}
		btx := mustBlobTx(raw)
		sc.txs = append(sc.txs, genTx{raw: raw, isBlob: true, inner: btx.Tx, blobs: specs, canon: canon})
		d = append(d, "b["+strings.Join(bd, " ")+"]")
		if canon == nil && c.rng.Chance(1, 12) {
			// a DIFFERENT blob transaction with byte-identical inner (PFB) bytes: same blob sizes, other
			// namespaces and data (anything keyed by the inner transaction confuses the two)
			twin := make([]blobSpec, len(specs))
			blobs := make([]*share.Blob, len(specs))
			okTwin := true
			for j := range specs {
				twin[j] = c.randBlob(pool[c.rng.Intn(len(pool))], len(specs[j].data), specs[j].ver == 1)
				bo, err := twin[j].blob()
				if err != nil {
					okTwin = false
					break
				}
				blobs[j] = bo
			}
			if okTwin {
				if raw2, err := tx.MarshalBlobTx(btx.Tx, blobs...); err == nil && !bytes.Equal(raw2, raw) {
					sc.txs = append(sc.txs, genTx{raw: raw2, isBlob: true, inner: btx.Tx, blobs: twin})
					d = append(d, "b[twin: same inner tx]")
				}
			}
		}
	}
	if c.rng.Chance(1, 6) {
		// boundary-directed: ordinary txs with lengths on the varint-width boundaries whose
		// length-prefixed stream ends EXACTLY on a compact share boundary
		var pre []genTx
		T := 0
		for j := c.rng.Range(0, 3); j > 0; j-- {
			n := c.rng.Pick([]int{1, 126, 127, 128, 129, 300, 16255, 16256, 16383, 16384, 16385})
			if n > capShares*478/2 {
				n = c.rng.Pick([]int{1, 126, 127, 128, 129})
			}
			pre = append(pre, genTx{raw: c.normalTx(n)})
			T += n + uvarintLen(n)
			d = append(d, fmt.Sprintf("t%d", n))
		}
		target := 474
		for target < T+2 {
			target += 478
		}
		if c.rng.Chance(1, 3) {
			target += 478
		}
		r := target - T // bytes the last unit must occupy (prefix included)
		L := r - 1
		for L > 0 && L+uvarintLen(L) > r {
			L--
		}
		if L > 0 && L+uvarintLen(L) == r {
			pre = append(pre, genTx{raw: c.normalTx(L)})
			d = append(d, fmt.Sprintf("t%d(exact-fill)", L))
		}
		sc.txs = append(pre, sc.txs...)
	}
	if c.rng.Chance(1, 10) && len(sc.txs) >= 2 {
		// a byte-identical copy of an ordinary transaction later in the list (lookups by content confuse them)
		var ord []int
		for i, t := range sc.txs {
			if !t.isBlob && len(t.raw) > 0 {
				ord = append(ord, i)
			}
		}
		if len(ord) > 0 {
			src := sc.txs[ord[c.rng.Intn(len(ord))]]
			sc.txs = append(sc.txs, genTx{raw: append([]byte(nil), src.raw...)})
			d = append(d, fmt.Sprintf("t%d(duplicate)", len(src.raw)))
		}
	}
	if c.rng.Chance(1, 25) && len(sc.txs) > 0 {
		// an empty ordinary tx somewhere in the list (nil or empty non-nil): outside C02/C09's quantifier
		var ord []int
		for i, t := range sc.txs {
			if !t.isBlob {
				ord = append(ord, i)
			}
		}
		if len(ord) > 0 {
			i := ord[c.rng.Intn(len(ord))]
			if c.rng.Bool() {
				sc.txs[i].raw = nil
			} else {
				sc.txs[i].raw = []byte{}
			}
			d = append(d, fmt.Sprintf("(tx %d emptied)", i))
			if sc.class == "" {
				sc.class = "empty-tx"
			}
		}
	}
	sc.desc = fmt.Sprintf("max=%d thr=%d %s", sc.max, sc.thr, strings.Join(d, " "))
	return sc
}

func rawList(txs []genTx) [][]byte {
	out := make([][]byte, len(txs))
	for i, t := range txs {
		out[i] = t.raw
	}
	return out
}

type buildOut struct {
	sq   square.Square
	kept [][]byte
	err  error
	out  string
}

func safeBuild(txs [][]byte, max, thr int) (r buildOut) {
	defer func() {
		if rec := recover(); rec != nil {
			r = buildOut{err: fmt.Errorf("panic: %v", rec), out: "panic"}
		}
	}()
	sq, kept, err := square.Build(txs, max, thr)
	if err != nil {
		return buildOut{err: err, out: "err"}
	}
	return buildOut{sq: sq, kept: kept, out: fmt.Sprintf("ok %s kept=%s", digList(sharesToBytes(sq)), digList(kept))}
}

func safeConstruct(txs [][]byte, max, thr int) (sq square.Square, out string, err error) {
	defer func() {
		if rec := recover(); rec != nil {
			sq, out, err = nil, "panic", fmt.Errorf("panic: %v", rec)
		}
	}()
	sq, err = square.Construct(txs, max, thr)
	if err != nil {
		return nil, "err", err
	}
	return sq, "ok " + digList(sharesToBytes(sq)), nil
}

func safeDeconstruct(sq square.Square) (txs [][]byte, out string) {
	defer func() {
		if rec := recover(); rec != nil {
			txs, out = nil, "panic"
		}
	}()
	t, err := square.Deconstruct(sq, decodeMockPFB)
	if err != nil {
		return nil, "err"
	}
	lens := make([]string, len(t))
	for i := range t {
		lens[i] = fmt.Sprint(len(t[i]))
	}
	return t, "ok " + digList(t) + " [" + strings.Join(lens, ",") + "]"
}

func rangeOut(r share.Range, err error) string {
	if err != nil {
		return "err"
	}
	return fmt.Sprintf("ok %d-%d", r.Start, r.End)
}

// placed blob of a kept blob tx, for the oracles
type placedBlob struct {
	txPos, blobPos int
	blob           *share.Blob
	own            [][]byte
	idx            int
}

func isSubsequence(sub, full [][]byte) bool {
	j := 0
	for _, s := range sub {
		for j < len(full) && !bytes.Equal(full[j], s) {
			j++
		}
		if j == len(full) {
			return false
		}
		j++
	}
	return true
}

func canonicalPadding(s []byte, ns []byte, ver uint8) bool {
	if !bytes.Equal(s[:29], ns) || s[29] != ver<<1|1 {
		return false
	}
	for _, b := range s[30:] {
		if b != 0 {
			return false
		}
	}
	return true
}

func (c *Ctx) squareCase(sc sqCase) {
	defer c.recoverCase()
	c.newCase()
	c.setClass(sc.class)
	txs := rawList(sc.txs)
	l := hxList(txs)
	b1 := safeBuild(txs, sc.max, sc.thr)
	c.emit(fmt.Sprintf("sq build %d %d %s", sc.max, sc.thr, l), b1.out)
	// C07: the executable Spec answers the same question
	c.emit(fmt.Sprintf("sq specbuild %d %d %s", sc.max, sc.thr, l), b1.out)
	c.oracle()
	fail := func(prop, what string) {
		c.violate(prop, sc.class, what+" ("+trunc(sc.desc, 300)+")", "", c.caseOps[:1])
	}
	if b1.err != nil {
		fail("C06", "Build returned an error although every blob tx decodes: "+trunc(b1.err.Error(), 200))
		fail("C01", "Build returned an error: "+trunc(b1.err.Error(), 200))
		fail("C07", "Build returned an error where the specified layout function is defined (every blob tx decodes): "+trunc(b1.err.Error(), 200))
		return
	}
	// the greedy selection and the side, recomputed from the rules alone (reference estimate): a transaction is
	// kept iff the worst-case estimate with it still fits; the side is the least power of two covering the estimate
	if sc.class == "" {
		c.oracle()
		re := refEst{}
		var wantKeptN, wantKeptB [][]byte
		for _, t := range sc.txs {
			ne := re.with(t, sc.thr)
			if ne.total() <= sc.max*sc.max {
				re = ne
				if t.isBlob {
					wantKeptB = append(wantKeptB, t.raw)
				} else {
					wantKeptN = append(wantKeptN, t.raw)
				}
			}
		}
		wantKept := append(append([][]byte(nil), wantKeptN...), wantKeptB...)
		if !eqTxs(b1.kept, wantKept) {
			fail("C07", fmt.Sprintf("Build kept %d transactions; the greedy rule on the worst-case estimate keeps %d (or other ones)", len(b1.kept), len(wantKept)))
			fail("C06", "a transaction was kept / refused against the rule 'refused exactly when the estimate would exceed maximum squared'")
		} else if len(wantKept) > 0 {
			if side := b1.sq.Size(); side != int(refMinSide(uint64(re.total()))) {
				fail("C07", fmt.Sprintf("the square side is %d; the least power of two whose area covers the worst-case estimate %d is %d", side, re.total(), refMinSide(uint64(re.total()))))
				fail("C06", fmt.Sprintf("the square side is %d, not the least power of two covering the estimate %d", side, re.total()))
			}
		}
	}
	// determinism + kept shape (C01)
	b2 := safeBuild(txs, sc.max, sc.thr)
	if b2.out != b1.out {
		fail("C01", "two Build calls on equal input returned different results")
	}
	var normals, blobTxs [][]byte
	for _, t := range sc.txs {
		if t.isBlob {
			blobTxs = append(blobTxs, t.raw)
		} else {
			normals = append(normals, t.raw)
		}
	}
	nKeptNormal := 0
	for nKeptNormal < len(b1.kept) {
		if _, is, _ := tx.UnmarshalBlobTx(b1.kept[nKeptNormal]); is {
			break
		}
		nKeptNormal++
	}
	keptN, keptB := b1.kept[:nKeptNormal], b1.kept[nKeptNormal:]
	for _, k := range keptB {
		if _, is, _ := tx.UnmarshalBlobTx(k); !is {
			fail("C01", "kept list has an ordinary tx after a blob tx")
		}
	}
	if !isSubsequence(keptN, normals) || !isSubsequence(keptB, blobTxs) {
		fail("C01", "kept list is not (ordinary txs in input order) ++ (blob txs in input order) as a subsequence of the input")
	}
	refused := len(txs) - len(b1.kept)
	c.dist(fmt.Sprintf("max=%d", sc.max))
	if refused > 0 {
		c.dist("has-refusal")
	}
	kl := hxList(b1.kept)
	sq, cout, cerr := safeConstruct(b1.kept, sc.max, sc.thr)
	c.emit(fmt.Sprintf("sq construct %d %d %s", sc.max, sc.thr, kl), cout)
	c.emit(fmt.Sprintf("sq spec %d %d %s", sc.max, sc.thr, kl), cout)
	if cerr != nil {
		fail("C01", "Construct of the kept list returned an error: "+trunc(cerr.Error(), 200))
		return
	}
	if digList(sharesToBytes(sq)) != digList(sharesToBytes(b1.sq)) {
		fail("C01", "Construct(kept) is not byte-identical to the built square")
	}
	if _, cout2, _ := safeConstruct(b1.kept, sc.max, sc.thr); cout2 != cout {
		fail("C01", "two Construct calls on equal input returned different squares")
	}
	raw := sharesToBytes(sq)
	n := len(sq)
	// ---- C03 well-formedness ----
	side := sq.Size()
	if !square.IsPowerOfTwo(side) || side > sc.max || side*side != n {
		fail("C03", fmt.Sprintf("square has %d shares, side %d, maximum %d", n, side, sc.max))
	}
	for i := 0; i < n; i++ {
		if len(raw[i]) != 512 {
			fail("C03", fmt.Sprintf("share %d of the square has %d bytes, not 512", i, len(raw[i])))
			return
		}
	}
	for i := 1; i < n; i++ {
		if bytes.Compare(raw[i-1][:29], raw[i][:29]) > 0 {
			fail("C03", fmt.Sprintf("shares %d and %d are not in non-decreasing namespace order", i-1, i))
			break
		}
	}
	// the decoders below run on the bytes the real code produced (not on the model's square)
	c.emit("sh set "+hxList(raw), "ok "+digList(raw))
	// decode kept blob txs, find recorded indexes
	wp, wout := safeWPFBs(sq)
	c.emit("sh wpfbs", wout)
	var placed []placedBlob
	var wrappedLens []int
	indexesOK := wp != nil || len(keptB) == 0
	if len(wp) != len(keptB) {
		indexesOK = false
		fail("C04", fmt.Sprintf("square carries %d wrapped PFBs for %d kept blob txs", len(wp), len(keptB)))
	}
	if indexesOK {
		for i, k := range keptB {
			btx := mustBlobTx(k)
			iw, ok := tx.UnmarshalIndexWrapper(wp[i])
			if !ok || len(iw.ShareIndexes) != len(btx.Blobs) || !bytes.Equal(iw.Tx, btx.Tx) {
				indexesOK = false
				fail("C04", fmt.Sprintf("wrapped PFB %d does not decode to the inner tx with one index per blob", i))
				break
			}
			wrappedLens = append(wrappedLens, len(wp[i]))
			for j, b := range btx.Blobs {
				own, err := b.ToShares()
				if err != nil {
					indexesOK = false
					break
				}
				placed = append(placed, placedBlob{i, j, b, sharesToBytes(own), int(iw.ShareIndexes[j])})
			}
		}
	}
	nsCount := map[string]bool{}
	for _, p := range placed {
		nsCount[string(p.blob.Namespace().Bytes())] = true
	}
	if len(placed) > 0 && (refused > 0 || len(nsCount) >= 2) {
		c.nontrivial(sc.desc)
	}
	if len(placed) >= 13 {
		c.dist("blobs>=13")
	}
	txShares := share.GetShareRangeForNamespace(sq, share.TxNamespace)
	pfbShares := share.GetShareRangeForNamespace(sq, share.PayForBlobNamespace)
	if indexesOK {
		// ---- C04 ----
		order := append([]placedBlob(nil), placed...)
		sort.SliceStable(order, func(a, b int) bool {
			return bytes.Compare(order[a].blob.Namespace().Bytes(), order[b].blob.Namespace().Bytes()) < 0
		})
		prevEnd := 0
		for oi, p := range order {
			nsh := len(p.own)
			if p.idx+nsh > n || digList(raw[min(p.idx, n):min(p.idx+nsh, n)]) != digList(p.own) {
				fail("C04", fmt.Sprintf("blob %d of kept blob tx %d (%d bytes, version %d): its %d shares do not appear verbatim at the recorded index %d", p.blobPos, p.txPos, len(p.blob.Data()), p.blob.ShareVersion(), nsh, p.idx))
				break
			}
			// the width rule from an independent reference (not the function under test)
			w := int(refLeastPow2Ge(refCeilDiv(uint64(nsh), uint64(sc.thr))))
			if ms := int(refMinSide(uint64(nsh))); ms < w {
				w = ms
			}
			if p.idx%w != 0 {
				fail("C04", fmt.Sprintf("recorded index %d of a %d-share blob is not a multiple of its subtree width %d", p.idx, nsh, w))
			}
			if oi > 0 && p.idx < prevEnd {
				fail("C04", "blob ranges overlap or are not ordered by (namespace, tx priority, position in tx)")
			}
			prevEnd = p.idx + nsh
			r, err := square.BlobShareRange(b1.kept, nKeptNormal+p.txPos, p.blobPos, sc.max, sc.thr)
			// every query carries the whole kept list and makes the model lay out the square again: in the
			// thorough tier (where the largest cases are not Go-only) squares with many blobs send a sample of
			// their queries to the model; the Go-side oracles below see all of them
			if !c.thorough || len(order) <= 48 || oi < 6 || oi >= len(order)-6 || c.rng.Chance(24, len(order)) {
				c.emit(fmt.Sprintf("sq blobrange %d %d %d %d %s", sc.max, sc.thr, nKeptNormal+p.txPos, p.blobPos, kl), rangeOutBare(r, err))
			}
			if err != nil || r.Start != p.idx || r.End != p.idx+nsh {
				fail("C04", fmt.Sprintf("BlobShareRange(tx %d, blob %d) = %v, the blob's shares are [%d,%d)", nKeptNormal+p.txPos, p.blobPos, rangeOutBare(r, err), p.idx, p.idx+nsh))
				fail("C12", fmt.Sprintf("BlobShareRange(tx %d, blob %d) = %v, the blob's shares are [%d,%d)", nKeptNormal+p.txPos, p.blobPos, rangeOutBare(r, err), p.idx, p.idx+nsh))
			}
			// C13: the builder's predicted share count of the blob is what the encoder produces
			if err == nil && r.End-r.Start != nsh {
				fail("C13", fmt.Sprintf("the builder predicts %d shares for blob %d of kept blob tx %d (%d bytes, version %d); the encoder produces %d", r.End-r.Start, p.blobPos, p.txPos, len(p.blob.Data()), p.blob.ShareVersion(), nsh))
			}
		}
		// ---- C03 region decomposition / canonical padding ----
		covered := make([]bool, n)
		for i := txShares.Start; i < txShares.End; i++ {
			covered[i] = true
		}
		for i := pfbShares.Start; i < pfbShares.End; i++ {
			covered[i] = true
		}
		if txShares.Start != 0 || (pfbShares.End > 0 && pfbShares.Start != txShares.End) {
			fail("C03", "transaction shares do not start the square / pay-for-blob shares do not follow them")
		}
		// each of the two compact regions is ONE sequence: its first share starts a sequence, no other share of
		// it does, and the declared length needs exactly the shares of the region (otherwise some share of the
		// region is part of no sequence without being padding)
		for _, reg := range []struct {
			name string
			r    share.Range
		}{{"transaction", txShares}, {"pay-for-blob", pfbShares}} {
			if reg.r.End <= reg.r.Start || reg.r.End > n {
				continue
			}
			first, ferr := share.NewShare(raw[reg.r.Start])
			if ferr != nil {
				continue
			}
			okSeq := first.IsSequenceStart()
			for i := reg.r.Start + 1; i < reg.r.End && okSeq; i++ {
				if s, e := share.NewShare(raw[i]); e != nil || s.IsSequenceStart() {
					okSeq = false
				}
			}
			declared := first.SequenceLen()
			if !okSeq || (declared > 1<<30 || sizeOf(int(declared)) != reg.r.End-reg.r.Start) {
				fail("C03", fmt.Sprintf("the %d %s shares are not one sequence: declared length %d needs %d shares (or a sequence start is misplaced)", reg.r.End-reg.r.Start, reg.name, declared, sizeOf(int(declared%(1<<30)))))
			}
		}
		padNs, padVer := share.PrimaryReservedPaddingNamespace.Bytes(), uint8(0)
		pos := max(txShares.End, pfbShares.End)
		okPad := true
		for _, p := range order {
			for i := pos; i < p.idx && i < n; i++ {
				if !canonicalPadding(raw[i], padNs, padVer) {
					okPad = false
					fail("C03", fmt.Sprintf("share %d in the gap before a blob is not a canonical padding share of the preceding namespace/version", i))
					break
				}
			}
			pos = p.idx + len(p.own)
			padNs, padVer = p.blob.Namespace().Bytes(), p.blob.ShareVersion()
		}
		for i := pos; i < n && okPad; i++ {
			if !canonicalPadding(raw[i], share.TailPaddingNamespace.Bytes(), 0) {
				fail("C03", fmt.Sprintf("share %d after the last blob is not a canonical tail padding share", i))
				break
			}
		}
		// ---- C06: estimate covers what is occupied (end of the last blob / compact shares) ----
		_ = covered
	}
	// ---- C12 tx ranges ----
	keptSizes := make([]int, len(b1.kept))
	for i := range keptN {
		keptSizes[i] = len(keptN[i])
	}
	for i := range wrappedLens {
		keptSizes[nKeptNormal+i] = wrappedLens[i]
	}
	offT, offP := 0, 0
	for i := -1; i <= len(b1.kept); i++ {
		if len(b1.kept) > 400 && i > 3 && i < len(b1.kept)-3 && i%(len(b1.kept)/60) != 0 {
			// very long lists: every range query rebuilds the builder, sample the indexes
			sz := keptSizes[i] + uvarintLen(keptSizes[i])
			if i < nKeptNormal {
				offT += sz
			} else {
				offP += sz
			}
			continue
		}
		r, err := safeTxRange(b1.kept, i, sc.max, sc.thr)
		c.emit(fmt.Sprintf("sq txrange %d %d %d %s", sc.max, sc.thr, i, kl), rangeOutBare(r, err))
		c.oracle()
		if i < 0 || i >= len(b1.kept) {
			if err == nil {
				fail("C12", fmt.Sprintf("TxShareRange(%d) with %d txs did not fail", i, len(b1.kept)))
			}
			continue
		}
		if !indexesOK || sc.class == "empty-tx" {
			continue
		}
		var wantS, wantE int
		sz := keptSizes[i] + uvarintLen(keptSizes[i])
		if i < nKeptNormal {
			wantS, wantE = shareOf(offT), shareOf(offT+sz-1)+1
			offT += sz
		} else {
			wantS, wantE = txShares.End+shareOf(offP), txShares.End+shareOf(offP+sz-1)+1
			offP += sz
		}
		if err != nil || r.Start != wantS || r.End != wantE {
			fail("C12", fmt.Sprintf("TxShareRange(%d) = %s, the shares holding the tx's bytes are [%d,%d)", i, rangeOutBare(r, err), wantS, wantE))
			continue
		}
		if r.End <= n {
			_, got, _ := safeParseTxs(sq[r.Start:r.End])
			want := b1.kept[i]
			if i >= nKeptNormal {
				want = wp[i-nKeptNormal]
			}
			found := false
			for _, g := range got {
				if bytes.Equal(g, want) {
					found = true
				}
			}
			if !found && len(want) > 0 {
				fail("C12", fmt.Sprintf("parsing the reported range [%d,%d) of tx %d does not yield that transaction", r.Start, r.End, i))
			}
		}
	}
	// ---- C02 ----
	dtx, dout := safeDeconstruct(sq)
	c.emit("sh set "+hxList(raw), "ok "+digList(raw)) // restore register R
	c.emit("sh deconstruct", dout)
	c.oracle()
	if sc.class != "empty-tx" {
		// Deconstruct re-marshals blob txs canonically: for a non-canonically encoded input the expected
		// bytes are its canonical encoding (C02 quantifies over canonical encodings)
		wantD := make([][]byte, len(b1.kept))
		for i, k := range b1.kept {
			wantD[i] = k
			for _, g := range sc.txs {
				if g.canon != nil && bytes.Equal(g.raw, k) {
					wantD[i] = g.canon
				}
			}
		}
		if dtx == nil && dout != "ok n=0 H=cbf29ce484222325 []" || !eqTxs(dtx, wantD) {
			fail("C02", fmt.Sprintf("Deconstruct(Construct(kept)) returned %s for %d kept txs", trunc(dout, 120), len(b1.kept)))
		}
	}
	// ---- C20 on the square ----
	for _, ign := range []bool{false, true} {
		o, seqs := safeParseShares(sq, ign)
		c.emit("sh parseshares "+b2s(ign), o)
		c.oracle()
		if seqs == nil && !strings.HasPrefix(o, "ok") {
			fail("C20", fmt.Sprintf("ParseShares(ignorePadding=%v) failed on a constructed square: %s", ign, o))
			continue
		}
		if !ign {
			total := 0
			for _, q := range seqs {
				total += len(q.Shares)
				for _, s := range q.Shares {
					if !bytes.Equal(s.Namespace().Bytes(), q.Namespace.Bytes()) {
						fail("C20", "a sequence holds shares of two namespaces")
					}
				}
			}
			if total != n {
				fail("C20", fmt.Sprintf("sequences cover %d of %d shares", total, n))
			}
		} else if indexesOK {
			want := 0
			if txShares.End > 0 {
				want++
			}
			if pfbShares.End > 0 {
				want++
			}
			order := append([]placedBlob(nil), placed...)
			sort.SliceStable(order, func(a, b int) bool { return order[a].idx < order[b].idx })
			if len(seqs) != want+len(order) {
				fail("C20", fmt.Sprintf("with padding ignored ParseShares returned %d sequences; expected tx/pfb sequences (%d) + %d blobs", len(seqs), want, len(order)))
			} else {
				for bi, p := range order {
					_, d := safeSeqRaw(seqs[want+bi])
					if !bytes.Equal(d, p.blob.Data()) {
						fail("C20", fmt.Sprintf("payload of blob sequence %d differs from the blob's data (%d bytes, version %d)", bi, len(p.blob.Data()), p.blob.ShareVersion()))
						break
					}
				}
			}
		}
	}
	for _, q := range [][]byte{share.TxNamespace.Bytes(), share.PayForBlobNamespace.Bytes(), share.TailPaddingNamespace.Bytes(), share.PrimaryReservedPaddingNamespace.Bytes()} {
		ns, _ := share.NewNamespaceFromBytes(q)
		r := share.GetShareRangeForNamespace(sq, ns)
		c.emit("sh range "+hx(q), fmt.Sprintf("%d-%d", r.Start, r.End))
	}
}

func rangeOutBare(r share.Range, err error) string {
	if err != nil {
		return "err"
	}
	return fmt.Sprintf("ok %d-%d", r.Start, r.End)
}

func safeTxRange(txs [][]byte, i, max, thr int) (r share.Range, err error) {
	defer func() {
		if rec := recover(); rec != nil {
			err = fmt.Errorf("panic: %v", rec)
		}
	}()
	return square.TxShareRange(txs, i, max, thr)
}

func safeWPFBs(sq square.Square) (w [][]byte, out string) {
	defer func() {
		if rec := recover(); rec != nil {
			w, out = nil, "panic"
		}
	}()
	w, err := sq.WrappedPFBs()
	if err != nil {
		return nil, "err"
	}
	return w, "ok " + digList(w)
}

func streamBuilder(c *Ctx) {
	// the empty list
	c.squareCase(sqCase{max: 4, thr: 64, desc: "empty"})
	// the 1x1 tail padding square deconstructs to the empty list
	c.emptySquareIsFresh()
	nc := c.n(700, 4000)
	maxes := []int{1, 2, 2, 4, 4, 4, 8, 8, 16}
	if c.thorough {
		maxes = []int{1, 2, 4, 4, 8, 8, 16, 16, 32}
	}
	for i := 0; i < nc; i++ {
		sc := c.genSquareCase(maxes)
		if sc.class != "" {
			c.dist("class:" + sc.class)
		}
		c.squareCase(sc)
	}
	c.manyBlobCases()
	c.fullSquareCases()
	c.hugeTxCases()
	c.hugeBlobCases()
	c.manySequencesCase()
	c.manyTxsCase()
	if c.thorough {
		c.exhaustiveSmallScope()
	}
}

// manyTxsCase: more than 16384 ordinary transactions in one square (20000 twenty-byte transactions, 64 x 64).
// Go-side oracles only in the quick tier.
func (c *Ctx) manyTxsCase() {
	sc := sqCase{max: 64, thr: 64}
	for i := 0; i < 20000; i++ {
		t := c.rng.Bytes(20)
		t[0] = 0xff // never a protobuf blob tx
		sc.txs = append(sc.txs, genTx{raw: t})
	}
	sc.desc = "max=64 thr=64 20000 x t20"
	c.goOnly = true // Go-side oracles only in both tiers: one operation of such a case costs the model seconds
	c.squareCase(sc)
	c.goOnly = false
	c.dist("many-txs")
}

// manySequencesCase: a 64 x 64 square holding more than a thousand sequences (36 blob transactions of 30
// one-share blobs plus the padding between and after them). Go-side oracles only in the quick tier.
func (c *Ctx) manySequencesCase() {
	pool := c.userNamespaces(3)
	sc := sqCase{max: 64, thr: c.rng.Pick([]int{1, 64})}
	sc.txs = append(sc.txs, genTx{raw: c.normalTx(200)})
	for t := 0; t < 36; t++ {
		specs := make([]blobSpec, 30)
		for j := range specs {
			specs[j] = c.randBlob(pool[(t+j)%3], c.rng.Range(1, 400), (t+j)%5 == 0)
		}
		raw := c.makeBlobTx(specs, 20)
		btx := mustBlobTx(raw)
		sc.txs = append(sc.txs, genTx{raw: raw, isBlob: true, inner: btx.Tx, blobs: specs})
	}
	sc.desc = fmt.Sprintf("max=64 thr=%d t200 36 x b[30 one-share blobs]", sc.thr)
	c.goOnly = true // Go-side oracles only in both tiers: one operation of such a case costs the model seconds
	c.squareCase(sc)
	c.goOnly = false
	c.dist("many-sequences")
}

// hugeBlobCases: the largest configurations - maxSquareSize 256, one blob just below / just above 128*128
// shares (subtree widths above 128), with and without an ordinary transaction in front. Go-side oracles only
// in the quick tier (8 MB through the line protocol is thorough-tier work).
func (c *Ctx) hugeBlobCases() {
	ns := c.userNamespaces(1)[0]
	sizes := []int{478 + 482*16384 - 300} // 16385 shares: subtree width 256 at threshold 64
	if c.thorough {
		sizes = append(sizes, 478+482*16383, 478+482*16384+1)
	}
	for vi, n := range sizes {
		spec := c.randBlob(ns, n, vi%2 == 1)
		raw := c.makeBlobTx([]blobSpec{spec}, 10)
		btx := mustBlobTx(raw)
		sc := sqCase{max: 256, thr: 64}
		if vi == 0 {
			sc.txs = append(sc.txs, genTx{raw: c.normalTx(300)})
		}
		sc.txs = append(sc.txs, genTx{raw: raw, isBlob: true, inner: btx.Tx, blobs: []blobSpec{spec}})
		sc.desc = fmt.Sprintf("max=256 thr=64 b[v%d:%d]", spec.ver, n)
		c.goOnly = true // Go-side oracles only in both tiers: one operation of such a case costs the model seconds
		c.squareCase(sc)
		c.goOnly = false
		c.dist("huge-blob")
	}
}

// emptySquareIsFresh: what Construct returns for the empty list belongs to the caller; a caller that reuses
// that slice (here: to hold the square of one small transaction) must not change what the library later
// returns for the empty list, nor what Deconstruct makes of later squares
func (c *Ctx) emptySquareIsFresh() {
	c.oracle()
	ref := digList(sharesToBytes(square.EmptySquare()))
	e0, err := square.Construct(nil, 4, 64)
	if err != nil || len(e0) != 1 {
		return
	}
	small := [][]byte{c.normalTx(40)}
	one, err := square.Construct(small, 4, 64)
	if err != nil || len(one) != 1 {
		return
	}
	saved := e0[0]
	e0[0] = one[0] // the caller reuses its slice
	back, derr := square.Deconstruct(one, decodeMockPFB)
	e1, _ := square.Construct(nil, 4, 64)
	e0[0] = saved
	if derr != nil || !eqTxs(back, small) {
		c.violate("C02", "", "Deconstruct(Construct([one 40-byte tx])) does not return the tx after the caller reused the slice an earlier Construct(nil) had returned", "", nil)
	}
	if digList(sharesToBytes(e1)) != ref {
		c.violate("C02", "", "Construct(nil) no longer returns the 1x1 tail padding square after the caller reused the slice an earlier Construct(nil) had returned", "", nil)
	}
}

// hugeTxCases: transactions at the sizes where the width of the varint length prefix changes for the last
// time within reach (2^20 .. 2^21: three and four byte prefixes), sized so that the unit ends EXACTLY on a
// compact share boundary (a one-byte error in any size computation then moves a share), alone and followed by
// a blob transaction; maxSquareSize 128.
func (c *Ctx) hugeTxCases() {
	pool := c.userNamespaces(1)
	type hc struct{ base, variant int }
	cases := []hc{{1 << 20, 1}, {1 << 21, 0}}
	if c.thorough {
		cases = nil
		for _, b := range []int{1 << 20, 1<<21 - 4000, 1 << 21, 1<<21 + 12345} {
			cases = append(cases, hc{b, 0}, hc{b, 1})
		}
	}
	for _, hcase := range cases {
		L := hcase.base
		for (L+uvarintLen(L)-474)%478 != 0 {
			L++
		}
		{
			variant := hcase.variant
			sc := sqCase{max: 128, thr: 64}
			sc.txs = append(sc.txs, genTx{raw: c.normalTx(L)})
			sc.desc = fmt.Sprintf("max=128 thr=64 t%d(exact-fill)", L)
			if variant == 1 {
				one := []blobSpec{c.randBlob(pool[0], 600, false)}
				raw2 := c.makeBlobTx(one, 10)
				btx2 := mustBlobTx(raw2)
				sc.txs = append(sc.txs, genTx{raw: raw2, isBlob: true, inner: btx2.Tx, blobs: one})
				sc.desc += " b[v0:600]"
			}
			// the 2 MiB cases go through the Go-side oracles only (one operation of such a case takes the model
			// several seconds; the model tie at these sizes is exercised by the 1 MiB cases)
			c.goOnly = L >= 1<<21-4000
			c.squareCase(sc)
			c.goOnly = false
			c.dist("huge-tx")
		}
	}
}

// manyBlobCases: one blob transaction paying for 128..140 one-share blobs (its packed share indexes need a
// two-byte length prefix, its wrapped PFB spans several shares), between an ordinary transaction and a
// one-blob transaction; the inner transaction is sized so that the wrapped PFB ends exactly on, one byte
// before and one byte after a compact share boundary, where a one-byte size error moves a range.
func (c *Ctx) manyBlobCases() {
	pool := c.userNamespaces(2)
	for rep := 0; rep < c.n(2, 12); rep++ {
		nb := c.rng.Range(128, 140)
		if rep%2 == 1 {
			// 43..127 blobs: the packed index field needs a two-byte length prefix only under the
			// worst-case (three-byte) indexes of the estimate, not under the real ones
			nb = c.rng.Pick([]int{43, 44, 50, 64, 85, 100, 126, 127})
		}
		lone := false // the many-blob transaction alone: its estimate is the estimate of the whole PFB region
		mk := func(filler int) sqCase {
			sc := sqCase{max: 16, thr: c.rng.Pick([]int{1, 2, 64})}
			if c.rng.Bool() {
				sc.max = 32
			}
			specs := make([]blobSpec, nb)
			for j := range specs {
				specs[j] = c.randBlob(pool[j%2], c.rng.Range(1, 300), false)
			}
			sc.txs = append(sc.txs, genTx{raw: c.normalTx(20)})
			raw := c.makeBlobTx(specs, filler)
			btx := mustBlobTx(raw)
			sc.txs = append(sc.txs, genTx{raw: raw, isBlob: true, inner: btx.Tx, blobs: specs})
			if lone {
				sc.desc = fmt.Sprintf("max=%d thr=%d t20 b[%d blobs, filler %d]", sc.max, sc.thr, nb, filler)
				return sc
			}
			one := []blobSpec{c.randBlob(pool[1], 100, false)}
			raw2 := c.makeBlobTx(one, 10)
			btx2 := mustBlobTx(raw2)
			sc.txs = append(sc.txs, genTx{raw: raw2, isBlob: true, inner: btx2.Tx, blobs: one})
			sc.desc = fmt.Sprintf("max=%d thr=%d t20 b[%d blobs, filler %d] b[v0:100]", sc.max, sc.thr, nb, filler)
			return sc
		}
		// measure the wrapped PFB of the many-blob transaction with a first filler
		f0 := 300
		probe := mk(f0)
		b := safeBuild(rawList(probe.txs), probe.max, probe.thr)
		fillers := []int{c.rng.Range(200, 700)}
		if b.err == nil {
			if w, _ := safeWPFBs(b.sq); len(w) >= 1 {
				E := uvarintLen(len(w[0])) + len(w[0]) // end of unit 0 in the pay-for-blob stream
				for _, d := range []int{-1, 0, 1} {
					delta := ((474+478*4+d-E)%478 + 478) % 478
					fillers = append(fillers, f0+delta)
				}
			}
		}
		for _, f := range fillers {
			c.squareCase(mk(f))
			c.dist("many-blob-tx")
		}
		fillers = fillers[:0]
		lone = true
		// ... and the worst-case estimate of that wrapped PFB (every index 16384, what the builder reserves
		// for) ending within a byte of a compact share boundary
		{
			inner := probe.txs[1].inner
			worst := make([]uint32, nb)
			for j := range worst {
				worst[j] = 16384
			}
			if w, err := tx.MarshalIndexWrapper(inner, worst...); err == nil {
				E := uvarintLen(len(w)) + len(w)
				for _, d := range []int{-1, 0, 1, 2} {
					delta := ((474+478*4+d-E)%478 + 478) % 478
					fillers = append(fillers, f0+delta)
				}
			}
		}
		for _, f := range fillers {
			c.squareCase(mk(f))
			c.dist("many-blob-tx")
		}
	}
}

// fullSquareCases: squares filled to the very last share by single-share blobs that exactly fill their share
// (478 bytes for share version 0, 458 for version 1): the raw encodings of the kept transactions then add up
// to MORE bytes than the square holds (namespace, signer and protobuf framing of every blob are not stored
// in the blob's share), and the estimate equals max^2 exactly
func (c *Ctx) fullSquareCases() {
	pool := c.userNamespaces(1)
	for _, max := range []int{2, 4, 8, 16} {
		for _, v1 := range []bool{false, true} {
			if max == 16 && !c.thorough && !v1 {
				continue
			}
			size := 478
			if v1 {
				size = 458
			}
			mk := func(nb int, split bool) sqCase {
				sc := sqCase{max: max, thr: 64}
				specs := make([]blobSpec, nb)
				for j := range specs {
					specs[j] = c.randBlob(pool[0], size, v1)
				}
				if split && nb > 2 {
					// the same blobs paid for by two transactions
					for _, part := range [][]blobSpec{specs[:nb/2], specs[nb/2:]} {
						raw := c.makeBlobTx(part, 5)
						btx := mustBlobTx(raw)
						sc.txs = append(sc.txs, genTx{raw: raw, isBlob: true, inner: btx.Tx, blobs: part})
					}
				} else {
					raw := c.makeBlobTx(specs, 5)
					btx := mustBlobTx(raw)
					sc.txs = append(sc.txs, genTx{raw: raw, isBlob: true, inner: btx.Tx, blobs: specs})
				}
				sc.desc = fmt.Sprintf("max=%d thr=64 full square: %d exact-fit version-%d blobs of %d bytes (split=%v)", max, nb, map[bool]int{false: 0, true: 1}[v1], size, split)
				return sc
			}
			for _, split := range []bool{false, true} {
				// the largest number of such blobs the square keeps
				for nb := max*max - 1; nb >= 1 && nb >= max*max-6; nb-- {
					sc := mk(nb, split)
					b := safeBuild(rawList(sc.txs), sc.max, sc.thr)
					if b.err == nil && len(b.kept) == len(sc.txs) {
						// 16 x 16 with ~250 blobs: Go-side oracles only in the quick tier (every range query of the
						// case would otherwise rebuild the square in the model)
						c.goOnly = !c.thorough && max >= 16
						c.squareCase(sc)
						c.goOnly = false
						c.dist("full-square")
						break
					}
				}
			}
		}
	}
}

// exhaustiveSmallScope: all lists of <= 3 txs over 8 size classes x 2 namespaces for side <= 4.
func (c *Ctx) exhaustiveSmallScope() {
	pool := c.userNamespaces(2)
	classes := []func() genTx{}
	mk := func(n int) func() genTx { return func() genTx { return genTx{raw: c.normalTx(n)} } }
	for _, n := range []int{1, 400, 473, 950} {
		classes = append(classes, mk(n))
	}
	mkb := func(ns share.Namespace, n int, v1 bool) func() genTx {
		return func() genTx {
			spec := c.randBlob(ns, n, v1)
			raw := c.makeBlobTx([]blobSpec{spec}, 10)
			btx := mustBlobTx(raw)
			return genTx{raw: raw, isBlob: true, inner: btx.Tx, blobs: []blobSpec{spec}}
		}
	}
	for _, ns := range pool {
		classes = append(classes, mkb(ns, 100, false), mkb(ns, 470, true), mkb(ns, 1000, false), mkb(ns, 2500, false))
	}
	k := len(classes)
	count := 0
	for _, mx := range []int{2, 4} {
		for _, thr := range []int{1, 64} {
			for l := 0; l <= 3; l++ {
				total := 1
				for i := 0; i < l; i++ {
					total *= k
				}
				for code := 0; code < total; code++ {
					sc := sqCase{max: mx, thr: thr}
					x := code
					for i := 0; i < l; i++ {
						sc.txs = append(sc.txs, classes[x%k]())
						x /= k
					}
					sc.desc = fmt.Sprintf("exhaustive max=%d thr=%d code=%d/%d", mx, thr, code, l)
					c.squareCase(sc)
					count++
				}
			}
		}
	}
	c.stats.Exhaustive = append(c.stats.Exhaustive, fmt.Sprintf("all tx lists of length <= 3 over %d size/namespace classes x max in {2,4} x threshold in {1,64}: %d squares", k, count))
}

// ---- reference estimate (third, Go-side implementation of the worst-case rule) ----

func refCompactCount(T int) int {
	if T == 0 {
		return 0
	}
	if T <= 474 {
		return 1
	}
	return 1 + (T-474+477)/478
}

func refBlobShares(n int, v1 bool) int {
	cap0 := 478
	if v1 {
		cap0 = 458
	}
	if n <= cap0 {
		return 1
	}
	return 1 + (n-cap0+481)/482
}

func worstWrapLen(inner []byte, nblobs int) int {
	idx := make([]uint32, nblobs)
	for i := range idx {
		idx[i] = 16384
	}
	b, _ := tx.MarshalIndexWrapper(inner, idx...)
	return len(b)
}

type refEst struct {
	txBytes, pfbBytes, blobShares int
}

func (e refEst) total() int {
	return refCompactCount(e.txBytes) + refCompactCount(e.pfbBytes) + e.blobShares
}

func (e refEst) with(t genTx, thr int) refEst {
	if !t.isBlob {
		e.txBytes += len(t.raw) + uvarintLen(len(t.raw))
		return e
	}
	w := worstWrapLen(t.inner, len(t.blobs))
	e.pfbBytes += w + uvarintLen(w)
	for _, b := range t.blobs {
		n := refBlobShares(len(b.data), b.ver == 1)
		width := int(refLeastPow2Ge(refCeilDiv(uint64(n), uint64(thr))))
		if ms := int(refMinSide(uint64(n))); ms < width {
			width = ms
		}
		e.blobShares += n + width - 1
	}
	return e
}

func exportOut(sq square.Square, err error) string {
	if err != nil {
		return "err"
	}
	return "ok " + digList(sharesToBytes(sq))
}

func safeExport(b *square.Builder) (sq square.Square, out string) {
	defer func() {
		if rec := recover(); rec != nil {
			sq, out = nil, "panic"
		}
	}()
	s, err := b.Export()
	return s, exportOut(s, err)
}

func occupied(sq square.Square) int {
	// index after the last share that is not tail padding
	n := len(sq)
	for n > 0 && sq[n-1].Namespace().IsTailPadding() {
		n--
	}
	return n
}

// basicWellFormed: the part of C03 that needs nothing but the square: side a power of two up to the maximum,
// side*side shares of 512 bytes in non-decreasing namespace order, each compact region exactly one sequence
// (start flag on its first share only, declared length needing exactly its shares). "" = well formed.
func basicWellFormed(sq square.Square, maxSide int) string {
	n := len(sq)
	side := sq.Size()
	if !square.IsPowerOfTwo(side) || side > maxSide || side*side != n {
		return fmt.Sprintf("square has %d shares, side %d, maximum %d", n, side, maxSide)
	}
	raw := sharesToBytes(sq)
	for i := range raw {
		if len(raw[i]) != 512 {
			return fmt.Sprintf("share %d of the square has %d bytes, not 512", i, len(raw[i]))
		}
	}
	for i := 1; i < n; i++ {
		if bytes.Compare(raw[i-1][:29], raw[i][:29]) > 0 {
			return fmt.Sprintf("shares %d and %d are not in non-decreasing namespace order", i-1, i)
		}
	}
	for _, ns := range [][]byte{share.TxNamespace.Bytes(), share.PayForBlobNamespace.Bytes()} {
		lo, hi := -1, -1
		for i := range raw {
			if bytes.Equal(raw[i][:29], ns) {
				if lo < 0 {
					lo = i
				}
				hi = i + 1
			}
		}
		if lo < 0 {
			continue
		}
		if raw[lo][29]&1 != 1 {
			return fmt.Sprintf("share %d, the first of a compact region, is not a sequence start", lo)
		}
		for i := lo + 1; i < hi; i++ {
			if raw[i][29]&1 != 0 {
				return fmt.Sprintf("share %d inside a compact region is a sequence start", i)
			}
		}
		declared := int(raw[lo][30])<<24 | int(raw[lo][31])<<16 | int(raw[lo][32])<<8 | int(raw[lo][33])
		if declared > 1<<30 || sizeOf(declared) != hi-lo {
			return fmt.Sprintf("the %d shares of a compact region are not one sequence: declared length %d", hi-lo, declared)
		}
	}
	return ""
}

func streamBHist(c *Ctx) {
	nh := c.n(700, 4000)
	for i := 0; i < nh; i++ {
		func() {
			defer c.recoverCase()
			c.newCase()
			sc := c.genSquareCase([]int{1, 2, 2, 4, 4, 8, 8, 16})
			c.setClass(sc.class)
			c.goOnly = false
			b, err := square.NewBuilder(sc.max, sc.thr)
			c.emit(fmt.Sprintf("b new %d %d", sc.max, sc.thr), okErr(err))
			if err != nil {
				return
			}
			var accepted []genTx
			est := refEst{}
			desc := fmt.Sprintf("max=%d thr=%d ", sc.max, sc.thr)
			sawRefusal, exportBetween, sawExport := false, false, false
			fail := func(prop, what string) {
				c.violate(prop, sc.class, what+" (history: "+trunc(desc, 300)+")", "", c.caseOps)
			}
			// what a fresh builder fed the appends accepted so far answers (reference for the queries)
			freshNow := func() *square.Builder {
				f, _ := square.NewBuilder(sc.max, sc.thr)
				for _, t := range accepted {
					if t.noBlobs {
						f.AppendBlobTx(&tx.BlobTx{Tx: t.inner})
					} else if t.isBlob {
						btx := mustBlobTx(t.raw)
						f.AppendBlobTx(btx)
					} else {
						f.AppendTx(t.raw)
					}
				}
				return f
			}
			query := func() {
				switch c.rng.Intn(5) {
				case 0:
					sq, out := safeExport(b)
					c.emit("b export", out)
					desc += "E "
					sawExport = true
					if sq == nil {
						fail("C06", "Export returned an error or panicked on a reachable builder state")
					}
				case 1:
					i := c.rng.Range(-1, b.NumTxs())
					r, err := b.FindTxShareRange(i)
					c.emit(fmt.Sprintf("b txrange %d", i), rangeOutBare(r, err))
					desc += "R "
					sawExport = true
					if sc.class == "" {
						c.oracle()
						fr, ferr := freshNow().FindTxShareRange(i)
						if rangeOutBare(r, err) != rangeOutBare(fr, ferr) {
							fail("C12", fmt.Sprintf("FindTxShareRange(%d) answers %s after this history; a fresh builder fed the same accepted appends answers %s", i, rangeOutBare(r, err), rangeOutBare(fr, ferr)))
							fail("C14", "a query depends on the history of exports / queries / refused appends")
						}
					}
				case 2:
					p, j := c.rng.Range(0, b.NumTxs()), c.rng.Range(-1, 3)
					v, err := b.FindBlobStartingIndex(p, j)
					c.emit(fmt.Sprintf("b blobidx %d %d", p, j), okOr(err, fmt.Sprintf("ok %d", v)))
					desc += "I "
					sawExport = true
					if sc.class == "" {
						c.oracle()
						fv, ferr := freshNow().FindBlobStartingIndex(p, j)
						if (err == nil) != (ferr == nil) || (err == nil && v != fv) {
							fail("C04", fmt.Sprintf("FindBlobStartingIndex(%d, %d) answers %s after this history; a fresh builder fed the same accepted appends answers %s", p, j, okOr(err, fmt.Sprint(v)), okOr(ferr, fmt.Sprint(fv))))
							fail("C14", "a query depends on the history of exports / queries / refused appends")
						}
					}
				case 3:
					p, j := c.rng.Range(0, b.NumTxs()), c.rng.Range(-1, 3)
					v, err := b.BlobShareLength(p, j)
					c.emit(fmt.Sprintf("b bloblen %d %d", p, j), okOr(err, fmt.Sprintf("ok %d", v)))
					desc += "L "
					if err == nil && sc.class == "" {
						// C13: the predicted share count of an accepted blob is what the encoder produces
						var keptBlobTxs []genTx
						nOrd := 0
						for _, a := range accepted {
							if a.isBlob {
								keptBlobTxs = append(keptBlobTxs, a)
							} else {
								nOrd++
							}
						}
						if q := p - nOrd; q >= 0 && q < len(keptBlobTxs) && j >= 0 && j < len(keptBlobTxs[q].blobs) {
							if bo, berr := keptBlobTxs[q].blobs[j].blob(); berr == nil {
								if sh, serr := bo.ToShares(); serr == nil {
									c.oracle()
									if v != len(sh) {
										fail("C13", fmt.Sprintf("BlobShareLength(%d, %d) predicts %d shares for a %d-byte version-%d blob; the encoder produces %d", p, j, v, len(bo.Data()), bo.ShareVersion(), len(sh)))
									}
								}
							}
						}
					}
				default:
					i := c.rng.Range(-1, b.NumTxs())
					w, err := b.GetWrappedPFB(i)
					out := "err"
					if err == nil {
						out = fmt.Sprintf("ok tx=%d:%s idx=[%s]", len(w.Tx), dig(w.Tx), natList(w.ShareIndexes))
						sawExport = true
					}
					c.emit(fmt.Sprintf("b wpfb %d", i), out)
					desc += "W "
				}
			}
			for _, t := range sc.txs {
				for c.rng.Chance(1, 3) {
					query()
				}
				before := b.CurrentSize()
				var beforeSq string
				checkUnchanged := c.rng.Chance(1, 2)
				if checkUnchanged {
					_, beforeSq = safeExport(b)
					c.emit("b export", beforeSq)
					sawExport = true
				}
				var acc bool
				kind := "tx"
				if t.isBlob {
					kind = "btx"
					btx := mustBlobTx(t.raw)
					if c.rng.Bool() {
						// the in-memory route: the caller's own Blob objects (not re-decoded from bytes), e.g. with the
						// exact signer slice they were created with
						mem := &tx.BlobTx{Tx: btx.Tx}
						okMem := true
						for _, sp := range t.blobs {
							bo, err := sp.blob()
							if err != nil {
								okMem = false
								break
							}
							mem.Blobs = append(mem.Blobs, bo)
						}
						if okMem && len(mem.Blobs) == len(btx.Blobs) {
							btx = mem
						}
					}
					acc = b.AppendBlobTx(btx)
				} else {
					acc = b.AppendTx(t.raw)
				}
				c.emit("b tx "+hx(t.raw), fmt.Sprintf("%s acc=%s size=%d", kind, b2s(acc), b.CurrentSize()))
				c.oracle()
				ne := est.with(t, sc.thr)
				wantAcc := ne.total() <= sc.max*sc.max
				if acc != wantAcc {
					fail("C06", fmt.Sprintf("append of a %d-byte %s was accepted=%v, but the worst-case estimate with it is %d for a maximum of %d shares", len(t.raw), kind, acc, ne.total(), sc.max*sc.max))
				}
				if acc {
					accepted = append(accepted, t)
					est = ne
					desc += fmt.Sprintf("+%s%d ", kind, len(t.raw))
					if sawExport {
						exportBetween = true
					}
					if b.CurrentSize() != ne.total() {
						fail("C06", fmt.Sprintf("running estimate is %d after the append, the closed-form worst case is %d", b.CurrentSize(), ne.total()))
					}
					if t.isBlob && sc.class == "" && !t.noBlobs {
						// C13: for every blob just accepted, the predicted share count is what the encoder produces
						nOrd, nBlobTx := 0, 0
						for _, a := range accepted {
							if a.isBlob {
								nBlobTx++
							} else {
								nOrd++
							}
						}
						for j, sp := range t.blobs {
							bo, berr := sp.blob()
							if berr != nil {
								continue
							}
							sh, serr := bo.ToShares()
							v, lerr := b.BlobShareLength(nOrd+nBlobTx-1, j)
							c.oracle()
							if serr == nil && lerr == nil && v != len(sh) {
								fail("C13", fmt.Sprintf("the builder predicts %d shares for a %d-byte version-%d blob (signer of %d bytes, nil=%v); the encoder produces %d", v, len(bo.Data()), bo.ShareVersion(), len(bo.Signer()), bo.Signer() == nil, len(sh)))
							}
						}
					}
					if t.isBlob && sc.class == "" && c.rng.Chance(1, 12) {
						// a hand-built blob transaction WITHOUT blobs (or nil), offered right after an accepted one: whatever
						// the builder answers, it must answer the same as a fresh builder replaying the accepted appends, and
						// the rest of this history is checked by the Go-side oracles only (there is no byte encoding of such
						// a transaction to send to the model)
						c.goOnly = true
						z := genTx{isBlob: true, noBlobs: true, inner: c.rng.Bytes(c.rng.Range(1, 60))}
						zacc := b.AppendBlobTx(&tx.BlobTx{Tx: z.inner})
						desc += fmt.Sprintf("Z(no blobs, acc=%v) ", zacc)
						ref := freshNow()
						if racc := ref.AppendBlobTx(&tx.BlobTx{Tx: z.inner}); racc != zacc || ref.CurrentSize() != b.CurrentSize() {
							fail("C14", fmt.Sprintf("a blob transaction without blobs is answered acc=%v size=%d after this history, acc=%v size=%d by a fresh builder fed the same accepted appends", zacc, b.CurrentSize(), racc, ref.CurrentSize()))
							fail("C06", "the running estimate after offering a blob transaction without blobs differs from a fresh builder's")
						}
						if zacc {
							accepted = append(accepted, z)
							est = est.with(z, sc.thr)
						}
					}
				} else {
					sawRefusal = true
					desc += fmt.Sprintf("-%s%d ", kind, len(t.raw))
					if b.CurrentSize() != before {
						fail("C06", "a refused append changed the running estimate")
					}
					if checkUnchanged {
						_, after := safeExport(b)
						c.emit("b export", after)
						if after != beforeSq {
							fail("C06", "a refused append changed the exported square")
						}
					}
				}
				if b.CurrentSize() > sc.max*sc.max {
					fail("C06", fmt.Sprintf("running estimate %d exceeds maximum squared %d", b.CurrentSize(), sc.max*sc.max))
				}
			}
			for c.rng.Chance(1, 2) {
				query()
			}
			final, fout := safeExport(b)
			c.emit("b export", fout)
			c.emit("b info", fmt.Sprintf("size=%d txs=%d pfbs=%d empty=%s", b.CurrentSize(), b.NumTxs()-b.NumPFBs(), b.NumPFBs(), b2s(b.IsEmpty())))
			c.oracle()
			if final == nil {
				fail("C06", "final Export returned an error or panicked")
				return
			}
			if sc.class == "" {
				// C03 on a square exported after a history of appends, exports and queries
				if w := basicWellFormed(final, sc.max); w != "" {
					fail("C03", "after this history the exported square is not well formed: "+w)
				}
			}
			{
				if occ := occupied(final); occ > b.CurrentSize() && len(accepted) > 0 {
					fail("C06", fmt.Sprintf("%d shares are occupied but the running estimate is only %d", occ, b.CurrentSize()))
				}
				if len(accepted) > 0 {
					if side := final.Size(); side != int(refMinSide(uint64(b.CurrentSize()))) || side > sc.max {
						fail("C06", fmt.Sprintf("square side %d is not the minimal side for the estimate %d (maximum %d)", side, b.CurrentSize(), sc.max))
					}
				}
			}
			// C14: a fresh builder fed only the accepted appends
			fresh, _ := square.NewBuilder(sc.max, sc.thr)
			for _, t := range accepted {
				if t.noBlobs {
					fresh.AppendBlobTx(&tx.BlobTx{Tx: t.inner})
				} else if t.isBlob {
					btx := mustBlobTx(t.raw)
					fresh.AppendBlobTx(btx)
				} else {
					fresh.AppendTx(t.raw)
				}
			}
			_, want := safeExport(fresh)
			if want != fout {
				fail("C14", "the final export differs from the export of a fresh builder fed only the accepted appends")
				fail("C07", "after this history the exported square is not the specified layout of the accepted appends (= what a fresh builder / Construct produces, which the BUILDER stream compares with the executable Spec)")
			}
			if sawRefusal || exportBetween {
				c.nontrivial(desc)
			}
			if sawRefusal {
				c.dist("has-refusal")
			}
			if exportBetween {
				c.dist("export-between-appends")
			}
		}()
	}
}

// ---- KF1: the committed witnesses of the known finding (DESIGN.md §7) ----

func init() {
	streams["KF1"] = streamKF1
	streamRules["KF1"] = "fixed witnesses of known finding KF1 (a blob whose namespace is the tx or pay-for-blob namespace is written with the compact layout but counted with sparse capacity), replayed on every run through the same oracles"
}

func (c *Ctx) fixedBlobTx(specs []blobSpec) genTx {
	raw := c.makeBlobTx(specs, 10)
	btx := mustBlobTx(raw)
	return genTx{raw: raw, isBlob: true, inner: btx.Tx, blobs: specs}
}

func kf1Cases(c *Ctx) []sqCase {
	user := v0ns(9, 9)
	fill := func(n int) []byte { return bytes.Repeat([]byte{0x5a}, n) }
	return []sqCase{
		{max: 64, thr: 64, class: "compact-ns-blob", desc: "KF1-a: BlobTx{blob in TxNamespace of 478 bytes, user blob of 100 bytes}",
			txs: []genTx{c.fixedBlobTx([]blobSpec{{ns: share.TxNamespace.Bytes(), data: fill(478)}, {ns: user.Bytes(), data: fill(100)}})}},
		{max: 16, thr: 64, class: "compact-ns-blob", desc: "KF1-b: BlobTx{blob in TxNamespace of AvailableBytesFromSparseShares(252) bytes}",
			txs: []genTx{c.fixedBlobTx([]blobSpec{{ns: share.TxNamespace.Bytes(), data: fill(share.AvailableBytesFromSparseShares(252))}})}},
		{max: 64, thr: 64, class: "compact-ns-blob", desc: "KF1-c: BlobTx{blob in PayForBlobNamespace of 2000 bytes, user blob of 600 bytes}",
			txs: []genTx{c.fixedBlobTx([]blobSpec{{ns: share.PayForBlobNamespace.Bytes(), data: fill(2000)}, {ns: user.Bytes(), data: fill(600)}})}},
	}
}

func streamKF1(c *Ctx) {
	for _, sc := range kf1Cases(c) {
		c.squareCase(sc)
		c.commitCase(sc)
		// the same input as an append history (C06)
		c.newCase()
		c.setClass(sc.class)
		b, _ := square.NewBuilder(sc.max, sc.thr)
		c.emit(fmt.Sprintf("b new %d %d", sc.max, sc.thr), "ok")
		for _, t := range sc.txs {
			btx := mustBlobTx(t.raw)
			acc := b.AppendBlobTx(btx)
			c.emit("b tx "+hx(t.raw), fmt.Sprintf("btx acc=%s size=%d", b2s(acc), b.CurrentSize()))
		}
		sq, out := safeExport(b)
		c.emit("b export", out)
		c.oracle()
		if sq == nil {
			c.violate("C06", sc.class, "Export returned an error on a reachable builder state ("+sc.desc+")", "", c.caseOps)
		} else if occ := occupied(sq); occ > b.CurrentSize() {
			c.violate("C06", sc.class, fmt.Sprintf("%d shares are occupied but the running estimate is only %d (%s)", occ, b.CurrentSize(), sc.desc), "", c.caseOps)
		}
	}
}
