package main

import (
	"bytes"
	"encoding/binary"
	"fmt"

	"github.com/celestiaorg/go-square/v2/share"
)

func init() {
	streams["SHARE"] = streamShare
	streamRules["SHARE"] = "every accessor on structured 512-byte shares: all 256 info bytes x namespace classes (tx, pfb, reserved padding, user, tail padding, parity) x sequence-length / reserved-byte classes (0, 34, 38, 511, 512, 2^32-1, random); NewInfoByte/ParseInfoByte on all versions/bytes; New/ParseReservedBytes; padding constructors; oracle: accessor == field of an independent decoder written from the share spec; non-trivial = distinct (info byte, namespace class, field class)"
}

func shareDecodeStr(s *share.Share) string {
	rd := s.RawData()
	signer := "nil"
	if sg := share.GetSigner(*s); sg != nil {
		signer = hx(sg)
	}
	rr := safe(func() string {
		b, err := s.RawDataUsingReserved()
		if err != nil {
			return "err"
		}
		return fmt.Sprintf("ok %d:%s", len(b), dig(b))
	})
	ns := s.Namespace()
	return fmt.Sprintf("ns=%s ver=%d start=%s compact=%s seqlen=%d signer=%s pad=%s sup=%s raw=%d:%s rawres=%s",
		hx(ns.Bytes()), s.Version(), b2s(s.IsSequenceStart()), b2s(s.IsCompactShare()), s.SequenceLen(), signer,
		b2s(s.IsPadding()), b2s(s.CheckVersionSupported() == nil), len(rd), dig(rd), rr)
}

func (c *Ctx) shareDecode(b []byte, key string) {
	s, err := share.NewShare(b)
	if err != nil {
		panic(err)
	}
	op := "share decode " + hx(b)
	out := safe(func() string { return shareDecodeStr(s) })
	c.emit(op, out)
	c.nontrivial(key)
	// oracle: independent decode from the spec
	c.oracle()
	info := b[29]
	ver, start := info>>1, info&1 == 1
	compact := bytes.Equal(b[:29], share.TxNamespace.Bytes()) || bytes.Equal(b[:29], share.PayForBlobNamespace.Bytes())
	seqLen := uint32(0)
	off := 30
	if start {
		seqLen = binary.BigEndian.Uint32(b[30:34])
		off += 4
	}
	var signer []byte
	if start && ver == 1 {
		signer = b[off : off+20]
		off += 20
	}
	if compact {
		off += 4
	}
	pad := (start && seqLen == 0) || bytes.Equal(b[:29], share.TailPaddingNamespace.Bytes()) || bytes.Equal(b[:29], share.PrimaryReservedPaddingNamespace.Bytes())
	bad := ""
	ns := s.Namespace()
	switch {
	case !bytes.Equal(ns.Bytes(), b[:29]):
		bad = "namespace"
	case s.Version() != ver:
		bad = "version"
	case s.IsSequenceStart() != start:
		bad = "sequence start flag"
	case s.SequenceLen() != seqLen:
		bad = "sequence length"
	case !bytes.Equal(share.GetSigner(*s), signer):
		bad = "signer"
	case s.IsPadding() != pad:
		bad = "padding test"
	case s.IsCompactShare() != compact:
		bad = "compact test"
	}
	// the payload accessor is specified for the share classes the format defines
	defined := (compact && ver == 0) || (!compact && ver <= 1)
	if bad == "" && defined && !bytes.Equal(s.RawData(), b[off:]) {
		bad = fmt.Sprintf("payload (expected to start at offset %d)", off)
	}
	if bad != "" {
		c.violate("C10", "", fmt.Sprintf("share accessor for the %s disagrees with the specified field (info byte 0x%02x, %s)", bad, info, key), "", []string{op})
	}
}

func streamShare(c *Ctx) {
	c.newCase()
	nsClasses := map[string][]byte{
		"tx": share.TxNamespace.Bytes(), "pfb": share.PayForBlobNamespace.Bytes(), "respad": share.PrimaryReservedPaddingNamespace.Bytes(),
		"user": v0ns(7, 7).Bytes(), "tail": share.TailPaddingNamespace.Bytes(), "parity": share.ParitySharesNamespace.Bytes(),
	}
	fieldVals := []uint32{0, 1, 34, 38, 511, 512, 0xffffffff, 0x12345678}
	for info := 0; info < 256; info++ {
		for name, ns := range nsClasses {
			for fi, fv := range fieldVals {
				b := c.rng.Bytes(512)
				copy(b, ns)
				b[29] = byte(info)
				// the field value goes to both candidate positions (sequence length and reserved bytes)
				binary.BigEndian.PutUint32(b[30:], fv)
				binary.BigEndian.PutUint32(b[34:], fieldVals[(fi+3)%len(fieldVals)])
				if info>>1 == 1 && info&1 == 1 { // version 1 first share: reserved bytes (if compact) sit after the signer
					binary.BigEndian.PutUint32(b[54:], fv)
				}
				c.shareDecode(b, fmt.Sprintf("info=%d ns=%s f=%d", info, name, fi))
			}
		}
	}
	c.stats.Exhaustive = append(c.stats.Exhaustive, "all 256 info bytes x 6 namespace classes x 8 sequence-length/reserved-byte values")
	for v := 0; v < 256; v++ {
		for _, st := range []bool{false, true} {
			op := fmt.Sprintf("share info %d %s", v, b2s(st))
			ib, err := share.NewInfoByte(uint8(v), st)
			out := "err"
			if err == nil {
				out = fmt.Sprintf("ok %d", byte(ib))
			}
			c.emit(op, out)
			c.oracle()
			if (err == nil) != (v <= 127) || (err == nil && (byte(ib) != byte(v)<<1|byte(btoi(st)) || ib.Version() != uint8(v) || ib.IsSequenceStart() != st)) {
				c.violate("C10", "", fmt.Sprintf("NewInfoByte(%d,%v) = %s, expected version<<1|start", v, st, out), "", []string{op})
			}
		}
		op := fmt.Sprintf("share parseinfo %d", v)
		ib, err := share.ParseInfoByte(byte(v))
		out := "err"
		if err == nil {
			out = fmt.Sprintf("ok %d ver=%d start=%s", byte(ib), ib.Version(), b2s(ib.IsSequenceStart()))
		}
		c.emit(op, out)
	}
	for _, v := range []uint32{0, 1, 34, 38, 255, 256, 510, 511, 512, 513, 65536, 0xffffffff} {
		op := fmt.Sprintf("share newres %d", v)
		rb, err := share.NewReservedBytes(v)
		c.emit(op, okOr(err, "ok "+hx(rb)))
		c.oracle()
		if (err == nil) != (v < 512) || (err == nil && binary.BigEndian.Uint32(rb) != v) {
			c.violate("C10", "", fmt.Sprintf("NewReservedBytes(%d) = %s", v, okOr(err, hx(rb))), "", []string{op})
		}
		var buf [4]byte
		binary.BigEndian.PutUint32(buf[:], v)
		op2 := "share parseres " + hx(buf[:])
		pv, err := share.ParseReservedBytes(buf[:])
		c.emit(op2, okOr(err, fmt.Sprintf("ok %d", pv)))
		if (err == nil) != (v < 512) || (err == nil && pv != v) {
			c.violate("C10", "", fmt.Sprintf("ParseReservedBytes(%x) = %s", buf, okOr(err, fmt.Sprint(pv))), "", []string{op2})
		}
	}
	for _, l := range []int{0, 3, 5} {
		op := "share parseres " + hx(make([]byte, l))
		_, err := share.ParseReservedBytes(make([]byte, l))
		c.emit(op, okOr(err, "ok 0"))
	}
	// padding constructors
	for _, ns := range [][]byte{v0ns(9).Bytes(), share.TxNamespace.Bytes(), share.PrimaryReservedPaddingNamespace.Bytes(), share.TailPaddingNamespace.Bytes()} {
		for _, ver := range []uint8{0, 1, 2, 127, 128, 255} {
			for _, n := range []int{0, 1, 3} {
				nsv, _ := share.NewNamespaceFromBytes(ns)
				op := fmt.Sprintf("share pad %s %d %d", hx(ns), ver, n)
				out := safe(func() string {
					sh, err := share.NamespacePaddingShares(nsv, ver, n)
					if err != nil {
						return "err"
					}
					for _, s := range sh {
						c.oracle()
						compact := nsv.IsTx() || nsv.IsPayForBlob()
						if !compact && !canonicalPadding(s.ToBytes(), ns, ver) {
							c.violate("C10", "", fmt.Sprintf("padding share for namespace %x version %d is not namespace | info | 0 length | zero fill", ns, ver), "", []string{op})
						}
					}
					return "ok " + digList(sharesToBytes(sh))
				})
				c.emit(op, out)
			}
		}
	}
	for _, n := range []int{0, 1, 2, 5} {
		c.emit(fmt.Sprintf("share respad %d", n), "ok "+digList(sharesToBytes(share.ReservedPaddingShares(n))))
		c.emit(fmt.Sprintf("share tailpad %d", n), "ok "+digList(sharesToBytes(share.TailPaddingShares(n))))
	}
}

func btoi(b bool) int {
	if b {
		return 1
	}
	return 0
}
