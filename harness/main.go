// Command harness is the Go side of the correspondence check (DESIGN.md §4.1): it generates
// operations, runs the real go-square code on them in-process (every call under recover), pipes
// the same operation lines to the compiled Lean driver, diffs the two output streams, and
// evaluates the Go-side property oracles. It proves nothing: it validates the tie between the
// Lean model and the source, and searches for failing inputs.
package main

import (
	"bufio"
	"encoding/json"
	"flag"
	"fmt"
	"os"
	"os/exec"
	"runtime/debug"
	"sort"
	"strings"
	"time"
)

// Mismatch is one positional difference between the Go and the Lean output streams.
type Mismatch struct {
	Class  string   `json:"class"`
	Stream string   `json:"stream"`
	Op     string   `json:"op"`
	Go     string   `json:"go"`
	Lean   string   `json:"lean"`
	Case   []string `json:"case_ops"`
}

// Violation is a failure of a property's own statement on the real code (a Go-side oracle).
type Violation struct {
	Property string   `json:"property"`
	Stream   string   `json:"stream"`
	What     string   `json:"what"`
	Class    string   `json:"class"` // discriminator used for known findings ("" = none)
	Ops      []string `json:"ops"`   // replay: the operations of the failing case
	Detail   string   `json:"detail"`
}

type StreamStats struct {
	Stream     string         `json:"stream"`
	Ops        int            `json:"ops"`
	Cases      int            `json:"cases"`
	Nontrivial int            `json:"distinct_nontrivial"`
	Rule       string         `json:"rule"`
	Exhaustive []string       `json:"exhaustive,omitempty"`
	Dist       map[string]int `json:"distribution"`
	Samples    []string       `json:"samples"`
	OracleEval int            `json:"oracle_evaluations"`
	WallS      float64        `json:"wall_s"`
}

type Result struct {
	Property    string        `json:"property"`
	Tier        string        `json:"tier"`
	Seed        uint64        `json:"seed"`
	Streams     []StreamStats `json:"streams"`
	Mismatches  []Mismatch    `json:"mismatches"`
	MismatchN   int           `json:"mismatch_count"`
	IrrelevantN int           `json:"mismatches_in_operations_of_other_properties"`
	OutsideN    int           `json:"documents_outside_the_modelled_fragment_not_compared"`
	Violations  []Violation   `json:"violations"`
	ViolationN  int           `json:"violation_count"`
	DriverErr   string        `json:"driver_error,omitempty"`
}

// Ctx carries one stream run: the PRNG, the pipe to the driver, statistics and findings.
type Ctx struct {
	goOnly   bool // suppress model operations (Go-side oracles only)
	stream   string
	tier     string
	thorough bool
	rng      *RNG
	res      *Result
	stats    *StreamStats
	drv      *driver
	caseOps  []string
	seen     map[uint64]struct{}
	props    map[string]bool // properties whose oracles are active ("" = all)
	noModel  bool
}

type pending struct {
	op, goOut string
	caseOps   []string
	class     string
}

type driver struct {
	cmd      *exec.Cmd
	stdin    interface{ Close() error }
	in       *bufio.Writer
	out      *bufio.Scanner
	queue    chan pending
	done     chan struct{}
	res      *Result
	stream   string
	err      string
	class    string // class of the current case (known-finding discriminator)
	props    map[string]bool
	prefixes []string // operations whose model functions the property under check depends on
}

func startDriver(path string, res *Result) (*driver, error) {
	cmd := exec.Command(path)
	stdin, err := cmd.StdinPipe()
	if err != nil {
		return nil, err
	}
	stdout, err := cmd.StdoutPipe()
	if err != nil {
		return nil, err
	}
	cmd.Stderr = os.Stderr
	if err := cmd.Start(); err != nil {
		return nil, err
	}
	d := &driver{cmd: cmd, stdin: stdin, in: bufio.NewWriterSize(stdin, 1<<20), out: bufio.NewScanner(stdout),
		queue: make(chan pending, 4096), done: make(chan struct{}), res: res}
	d.out.Buffer(make([]byte, 1<<20), 1<<28)
	go func() {
		defer close(d.done)
		poisoned := false
		for p := range d.queue {
			if !d.out.Scan() {
				if d.err == "" {
					d.err = "driver output ended early at op: " + trunc(p.op, 200)
				}
				continue
			}
			lean := d.out.Text()
			if p.op == "case" {
				poisoned = false
			}
			if lean == "outside" {
				// a JSON document outside the canonical fragment the decoders are modelled on: the model
				// makes no claim, nothing is compared
				d.res.OutsideN++
				continue
			}
			isSpec := strings.HasPrefix(p.op, "sq spec") || strings.HasPrefix(p.op, "spec ")
			if lean != p.goOut && isSpec {
				// Spec operations carry all their inputs: they are compared even after an earlier
				// difference in the same case, and they do not poison it
				d.onMismatch(p, lean)
			} else if lean != p.goOut && (!poisoned || !stateDependent(p.op)) {
				// later ops of this case depend on the state this op left behind: do not compare them
				poisoned = true
				d.onMismatch(p, lean)
			}
		}
	}()
	return d, nil
}

// onMismatch classifies one positional difference. Operations answered by the executable Spec
// ("sq spec…", "spec …") compare the real code with the independent reference of C07 / C10: a
// difference there is a failure of the property itself on a concrete input. Every other
// difference is a broken correspondence between the Impl model and the code; it counts for the
// property under check only when the operation is one its theorems are about.
func (d *driver) onMismatch(p pending, lean string) {
	res := d.res
	specProp := ""
	switch {
	case strings.HasPrefix(p.op, "sq spec"):
		specProp = "C07"
	case strings.HasPrefix(p.op, "spec "):
		specProp = "C10"
	}
	if specProp != "" {
		if d.props[""] || d.props[specProp] {
			res.ViolationN++
			if len(res.Violations) < 40 {
				what := "the constructed square is not byte-identical to the specified layout (executable Spec.construct / Spec.build)"
				if specProp == "C10" {
					what = "the emitted shares are not byte-identical to the specified share encoding (executable Spec.Format)"
				}
				res.Violations = append(res.Violations, Violation{Property: specProp, Stream: d.stream, What: what, Class: p.class,
					Ops: []string{p.op}, Detail: "real code: " + trunc(p.goOut, 300) + " | specification: " + trunc(lean, 300)})
			}
		}
		return
	}
	if !d.relevant(p.op) {
		res.IrrelevantN++
		return
	}
	res.MismatchN++
	if len(res.Mismatches) < 20 {
		res.Mismatches = append(res.Mismatches, Mismatch{Stream: d.stream, Op: p.op, Go: p.goOut, Lean: lean, Case: p.caseOps, Class: p.class})
	}
}

// stateDependent: operations that read the driver's registers (current share list, splitter,
// builder, counter). After a difference in a case only these are skipped; operations that carry
// all their inputs are always compared.
func stateDependent(op string) bool {
	for _, pre := range []string{"sh ", "css ", "sss ", "b ", "cnt add", "cnt revert", "cnt new"} {
		if strings.HasPrefix(op, pre) {
			return true
		}
	}
	return false
}

func (d *driver) relevant(op string) bool {
	if len(d.prefixes) == 0 {
		return true
	}
	for _, pre := range d.prefixes {
		if strings.HasPrefix(op, pre) {
			return true
		}
	}
	return false
}

func (d *driver) send(op, goOut string, caseOps []string) {
	d.in.WriteString(op)
	d.in.WriteByte('\n')
	p := pending{op, goOut, caseOps, d.class}
	select {
	case d.queue <- p:
	default:
		// the comparator is behind: make sure the driver has everything written so far
		d.in.Flush()
		d.queue <- p
	}
}

func (d *driver) close() {
	d.in.Flush()
	d.stdin.Close()
	close(d.queue)
	<-d.done
	d.cmd.Wait()
}

func trunc(s string, n int) string {
	if len(s) > n {
		return s[:n] + "…"
	}
	return s
}

// setClass tags the current case with a known-finding discriminator ("" = none).
func (c *Ctx) setClass(class string) {
	if c.drv != nil {
		c.drv.class = class
	}
}

// recoverCase is deferred around one case of a stream. A panic that a call into the library raises where
// the harness does not expect one (the calls it knows can panic on malformed input carry their own recover)
// is a failing case of the property under check, with the operations of the case as the replay; the stream
// goes on with its next case. A panic with no library frame on its stack is a defect of the harness and is
// raised again.
func (c *Ctx) recoverCase() {
	r := recover()
	if r == nil {
		return
	}
	stack := string(debug.Stack())
	var frames []string
	lines := strings.Split(stack, "\n")
	for i, l := range lines {
		if strings.HasPrefix(l, "github.com/celestiaorg/go-square/") && i+1 < len(lines) {
			fn := l
			if k := strings.LastIndex(fn, "("); k > 0 {
				fn = fn[:k]
			}
			loc := strings.TrimSpace(lines[i+1])
			if k := strings.LastIndex(loc, " +0x"); k > 0 {
				loc = loc[:k]
			}
			if k := strings.LastIndex(loc, "/"); k > 0 {
				if k2 := strings.LastIndex(loc[:k], "/"); k2 > 0 {
					loc = loc[k2+1:]
				}
			}
			frames = append(frames, fn+" ("+loc+")")
		}
	}
	if len(frames) == 0 {
		panic(r)
	}
	if len(frames) > 4 {
		frames = frames[:4]
	}
	class := ""
	if c.drv != nil {
		class = c.drv.class
	}
	what := fmt.Sprintf("the library panicked during a sequence of valid calls: %v in %s", r, frames[0])
	ops := append([]string(nil), c.caseOps...)
	if len(ops) > 64 {
		ops = append([]string{"…(earlier ops of this case omitted)"}, ops[len(ops)-64:]...)
	}
	reported := false
	for p := range c.props {
		if p == "" {
			continue
		}
		c.violate(p, class, what, strings.Join(frames, " <- "), ops)
		reported = true
	}
	if !reported {
		c.violate("C16", class, what, strings.Join(frames, " <- "), ops)
	}
	c.goOnly = false
	c.dist("case-ended-by-library-panic")
}

// newCase starts a fresh driver state.
func (c *Ctx) newCase() {
	c.setClass("")
	c.stats.Cases++
	c.caseOps = c.caseOps[:0]
	c.emit("case", "case")
}

// emit records one operation with the result the real code produced.
func (c *Ctx) emit(op, goOut string) {
	if c.goOnly {
		// Go-side oracles only (inputs too large to push through the line protocol in the quick tier): the
		// operation is recorded for the replay but not sent to the model
		c.stats.Ops++
		if len(op) > 4000 {
			op = op[:4000] + "…"
		}
		c.caseOps = append(c.caseOps, op)
		return
	}
	c.stats.Ops++
	c.caseOps = append(c.caseOps, op)
	if opsOut != nil {
		opsOut.WriteString(op)
		opsOut.WriteString("\n")
	}
	if c.drv != nil {
		var snapshot []string
		if len(c.caseOps) <= 64 {
			snapshot = append([]string(nil), c.caseOps...)
		} else {
			snapshot = append([]string{"…(" + fmt.Sprint(len(c.caseOps)-32) + " earlier ops of this case omitted)"}, c.caseOps[len(c.caseOps)-32:]...)
		}
		c.drv.send(op, goOut, snapshot)
	}
	if len(c.stats.Samples) < 3 && len(op) < 300 && op != "case" {
		c.stats.Samples = append(c.stats.Samples, op+"  ->  "+trunc(goOut, 200))
	}
}

func (c *Ctx) dist(key string) { c.stats.Dist[key]++ }

// nontrivial counts a distinct non-trivial case by the hash of its description.
func (c *Ctx) nontrivial(key string) {
	h := fnvStr(key)
	if _, ok := c.seen[h]; !ok {
		c.seen[h] = struct{}{}
		c.stats.Nontrivial++
	}
}

func (c *Ctx) wants(prop string) bool { return c.props[""] || c.props[prop] }

// violate records a failure of a property's statement on the real code.
func (c *Ctx) violate(prop, class, what, detail string, ops []string) {
	if !c.wants(prop) {
		return
	}
	c.res.ViolationN++
	if len(c.res.Violations) < 40 {
		c.res.Violations = append(c.res.Violations, Violation{Property: prop, Stream: c.stream, What: what, Class: class,
			Ops: append([]string(nil), ops...), Detail: trunc(detail, 2000)})
	}
}

func (c *Ctx) oracle() { c.stats.OracleEval++ }

type streamFn func(c *Ctx)

var streams = map[string]streamFn{}
var streamRules = map[string]string{}

// which streams (and oracles) each property depends on
var propStreams = map[string][]string{
	"C01": {"BUILDER"},
	"C02": {"BUILDER"},
	"C03": {"BUILDER", "BHIST"},
	"C04": {"BUILDER", "BHIST"},
	"C05": {"COMMIT"},
	"C06": {"BUILDER", "BHIST"},
	"C07": {"BUILDER", "BHIST"},
	"C08": {"SPARSE"},
	"C09": {"COMPACT", "CHIST"},
	"C10": {"SHARE", "COMPACT", "SPARSE", "CHIST"},
	"C11": {"COMPACT", "CHIST"},
	"C12": {"BUILDER", "COMPACT", "CHIST", "BHIST"},
	"C13": {"COUNTER", "ARITHLEN", "SPARSE", "BUILDER", "BHIST", "CHIST"},
	"C14": {"BHIST", "CHIST"},
	"C15": {"ARITH"},
	"C16": {"MALFORMED"},
	"C17": {"ALIAS"},
	"C18": {"NS"},
	"C19": {"PROTO", "JSON"},
	"C20": {"RANGE", "BUILDER"},
}

// operations (by prefix) whose model functions each property's theorems are about; a
// correspondence difference elsewhere in a shared stream does not touch that property
var propOps = map[string][]string{
	"C01": {"sq build", "sq construct"},
	"C02": {"sq construct", "sh deconstruct"},
	"C03": {"sq build", "sq construct", "b export"},
	"C04": {"sq build", "sq construct", "sq blobrange", "sh wpfbs", "b blobidx", "b wpfb", "b bloblen"},
	"C05": {"commit roots", "sh rowroot"},
	"C06": {"sq build", "b "},
	"C07": {"sq build", "sq construct"},
	"C08": {"sss ", "sh parseblobs", "sh wrap"},
	"C09": {"css ", "sh parsetxs"},
	"C10": {"share ", "css export", "css write", "sss "},
	"C11": {"css ", "sh parsetxs"},
	"C12": {"sq txrange", "sq blobrange", "css ranges", "css write", "css export", "b txrange"},
	"C13": {"cnt ", "arith ", "sq blobrange", "b bloblen", "sh parseshares", "css count"},
	"C14": {"css ", "b "},
	"C15": {"arith "},
	"C16": {},
	"C17": {},
	"C18": {"ns "},
	"C19": {"proto ", "json "},
	"C20": {"sh range", "sh parseshares", "sh seqraw"},
}

func main() {
	prop := flag.String("property", "", "property id (C01..C20) or empty with -streams")
	streamList := flag.String("streams", "", "comma separated stream names (overrides the property's)")
	tier := flag.String("tier", "quick", "quick|thorough")
	seed := flag.Uint64("seed", 1, "PRNG seed")
	drvPath := flag.String("driver", "", "path of the compiled Lean driver (empty: Go side only)")
	out := flag.String("out", "", "result JSON path")
	scale := flag.Float64("scale", 1.0, "multiplier on case counts")
	opsFile := flag.String("ops", "", "also write every operation line and the Go result to this file (debugging)")
	facts := flag.Bool("facts", false, "print Gen/Facts.lean regenerated from the compiled package and exit")
	flag.Parse()
	if *facts {
		writeFacts(os.Stdout)
		return
	}

	res := &Result{Property: *prop, Tier: *tier, Seed: *seed, Violations: []Violation{}, Mismatches: []Mismatch{}}
	names := propStreams[*prop]
	if *streamList != "" {
		names = strings.Split(*streamList, ",")
	}
	if len(names) == 0 {
		fmt.Fprintln(os.Stderr, "no streams for property", *prop)
		os.Exit(2)
	}
	props := map[string]bool{*prop: true}
	if *opsFile != "" {
		f, err := os.Create(*opsFile)
		if err == nil {
			opsOut = bufio.NewWriter(f)
			defer func() { opsOut.Flush(); f.Close() }()
		}
	}
	gScale = *scale
	for _, name := range names {
		fn, ok := streams[name]
		if !ok {
			fmt.Fprintln(os.Stderr, "unknown stream", name)
			os.Exit(2)
		}
		st := StreamStats{Stream: name, Dist: map[string]int{}, Rule: streamRules[name]}
		c := &Ctx{stream: name, tier: *tier, thorough: *tier == "thorough", rng: NewRNG(*seed ^ fnvStr(name)),
			res: res, stats: &st, seen: map[uint64]struct{}{}, props: props}
		if *drvPath != "" {
			d, err := startDriver(*drvPath, res)
			if err != nil {
				fmt.Fprintln(os.Stderr, "cannot start driver:", err)
				os.Exit(2)
			}
			d.stream = name
			d.props = props
			d.prefixes = propOps[*prop]
			c.drv = d
		}
		t0 := time.Now()
		func() {
			// last resort: a library panic outside any guarded case ends the stream with a reported failing case
			defer c.recoverCase()
			fn(c)
		}()
		if c.drv != nil {
			c.drv.close()
			if c.drv.err != "" {
				res.DriverErr = c.drv.err
			}
		}
		st.WallS = time.Since(t0).Seconds()
		res.Streams = append(res.Streams, st)
	}
	sort.SliceStable(res.Violations, func(i, j int) bool { return len(res.Violations[i].Ops) < len(res.Violations[j].Ops) })
	b, _ := json.MarshalIndent(res, "", " ")
	if *out != "" {
		os.WriteFile(*out, b, 0o644)
	} else {
		os.Stdout.Write(b)
	}
	if res.MismatchN > 0 || res.ViolationN > 0 || res.DriverErr != "" {
		os.Exit(1)
	}
}

var gScale = 1.0
var opsOut *bufio.Writer

// n scales a case count by tier and -scale.
func (c *Ctx) n(quick, thorough int) int {
	v := quick
	if c.thorough {
		v = thorough
	}
	v = int(float64(v) * gScale)
	if v < 1 {
		v = 1
	}
	return v
}
