package main

import (
	"bytes"
	"encoding/base64"
	"fmt"
	"strings"

	"github.com/celestiaorg/go-square/v2/share"
)

func init() {
	streams["JSON"] = streamJSON
	streamRules["JSON"] = "JSON codecs against Model/Json.lean: base64.StdEncoding on byte strings of every length class and on malformed texts (bad characters, bad or missing padding, non-zero trailing bits, line breaks); Namespace/Share/Blob MarshalJSON byte-exact against the modelled encoder; UnmarshalJSON on documents of the canonical fragment (members in any order, duplicated, null, explicit empty strings, numbers at the uint32 and version limits, wrong sizes, corrupted base64) - documents the model places outside the fragment (white space, escapes, unknown members, fractions) are answered 'outside' and not compared; Go-side round-trip oracles for C19; non-trivial = distinct op"
}

func safeStr(f func() string) (out string) {
	defer func() {
		if r := recover(); r != nil {
			out = "panic"
		}
	}()
	return f()
}

// blob as the model prints it: a signer of length 0 is "no signer" whatever its Go representation
func blobStrJ(b *share.Blob) string {
	s := "nil"
	if len(b.Signer()) != 0 {
		s = hx(b.Signer())
	}
	return fmt.Sprintf("%s:%d:%s:%d:%s", hx(b.Namespace().Bytes()), b.ShareVersion(), s, len(b.Data()), dig(b.Data()))
}

func goUnmarshalNs(doc []byte) string {
	return safeStr(func() string {
		var n share.Namespace
		if err := n.UnmarshalJSON(doc); err != nil {
			return "err"
		}
		return "ok " + hx(n.Bytes())
	})
}

func goUnmarshalShare(doc []byte) string {
	return safeStr(func() string {
		var s share.Share
		if err := s.UnmarshalJSON(doc); err != nil {
			return "err"
		}
		return "ok " + dig(s.ToBytes())
	})
}

func goUnmarshalBlob(doc []byte) string {
	return safeStr(func() string {
		var b share.Blob
		if err := b.UnmarshalJSON(doc); err != nil {
			return "err"
		}
		return "ok " + blobStrJ(&b)
	})
}

// mutateDoc: one small corruption of a document
func (c *Ctx) mutateDoc(doc []byte) []byte {
	d := append([]byte(nil), doc...)
	if len(d) == 0 {
		return []byte("null")
	}
	switch c.rng.Intn(8) {
	case 0: // flip one bit
		d[c.rng.Intn(len(d))] ^= 1 << uint(c.rng.Intn(7))
	case 1: // truncate
		d = d[:c.rng.Intn(len(d))]
	case 2: // append
		d = append(d, c.rng.Pick3([]byte("}"), []byte(" "), []byte("="), []byte("A"), []byte(`"`))...)
	case 3: // replace one character by an alphabet / structural character
		alpha := []byte(`AZaz09+/=",:{}-_ \`)
		d[c.rng.Intn(len(d))] = alpha[c.rng.Intn(len(alpha))]
	case 4: // delete one character
		i := c.rng.Intn(len(d))
		d = append(d[:i], d[i+1:]...)
	case 5: // duplicate one character
		i := c.rng.Intn(len(d))
		d = append(d[:i+1], d[i:]...)
	case 6: // a high byte
		d[c.rng.Intn(len(d))] = byte(0x80 + c.rng.Intn(0x80))
	default: // swap two neighbours
		if len(d) > 1 {
			i := c.rng.Intn(len(d) - 1)
			d[i], d[i+1] = d[i+1], d[i]
		}
	}
	return d
}

func streamJSON(c *Ctx) {
	c.newCase()
	// ---- base64 ----
	for n := 0; n <= 70; n++ { // every length class several times over
		for rep := 0; rep < 3; rep++ {
			b := c.rng.Bytes(n)
			if rep == 1 {
				b = bytes.Repeat([]byte{0xff}, n)
			}
			enc := base64.StdEncoding.EncodeToString(b)
			c.emit("json b64enc "+hx(b), hx([]byte(enc)))
			dec, err := base64.StdEncoding.DecodeString(enc)
			c.emit("json b64dec "+hx([]byte(enc)), okOr(err, "ok "+hx(dec)))
			c.oracle()
			if err != nil || !bytes.Equal(dec, b) {
				c.violate("C19", "", "base64 round trip failed", enc, nil)
			}
		}
	}
	c.stats.Exhaustive = append(c.stats.Exhaustive, "base64 of byte strings of every length 0..70 (random, all-ones)")
	hand := []string{"", "=", "==", "===", "====", "A", "AA", "AAA", "AAAA", "AA==", "AA=", "A===", "AAA=", "AAA==", "AA==A", "AA==AAAA", "AAAA=", "AAAAAA==", "AAAAAAA=",
		"QR==", "QQ==", "QUI=", "QUJ=", "QUJD", "Q\nQ==", "QQ=\n=", "QQ==\n", "\nQQ==", "QQ\r\n==", "QQ= =", "QQ==\t", "Q Q==", "Q-Q=", "Q_Q=", "QUJD\n", "QUJDQQ==", "QUJD=QQ=", "=QUJ", "QU=D", "Q=JD", "////", "++++", "+/+/", "/w==", "/x==", "//8="}
	for _, h := range hand {
		dec, err := base64.StdEncoding.DecodeString(h)
		c.emit("json b64dec "+hx([]byte(h)), okOr(err, "ok "+hx(dec)))
	}
	for i := 0; i < c.n(1500, 40000); i++ {
		b := c.rng.Bytes(c.rng.Range(0, 12))
		t := []byte(base64.StdEncoding.EncodeToString(b))
		for k := c.rng.Range(1, 2); k > 0; k-- {
			t = c.mutateDoc(t)
		}
		dec, err := base64.StdEncoding.DecodeString(string(t))
		op := "json b64dec " + hx(t)
		c.emit(op, okOr(err, "ok "+hx(dec)))
		c.nontrivial(op)
	}
	// ---- namespaces ----
	for _, nb := range c.boundaryNamespaces() {
		ns, nerr := share.NewNamespaceFromBytes(nb)
		if nerr != nil {
			continue
		}
		doc, err := ns.MarshalJSON()
		c.emit("json mns "+hx(nb), okOr(err, hx(doc)))
		c.emit("json uns "+hx(doc), goUnmarshalNs(doc))
		c.oracle()
		if goUnmarshalNs(doc) != "ok "+hx(nb) {
			c.violate("C19", "", "Namespace.UnmarshalJSON(Namespace.MarshalJSON()) does not return namespace "+hx(nb), string(doc), nil)
		}
		for k := 0; k < 3; k++ {
			m := c.mutateDoc(doc)
			c.emit("json uns "+hx(m), goUnmarshalNs(m))
		}
	}
	for _, n := range []int{0, 1, 27, 28, 29, 30, 31, 32, 58} { // wrong sizes, and 29 bytes that are no namespace
		for _, fill := range []byte{0x00, 0x01, 0xff} {
			b := bytes.Repeat([]byte{fill}, n)
			doc := []byte(`"` + base64.StdEncoding.EncodeToString(b) + `"`)
			c.emit("json uns "+hx(doc), goUnmarshalNs(doc))
		}
	}
	for _, d := range []string{`null`, `""`, `"`, `""""`, ` "AA=="`, `"AA==" `, `[0]`, `{}`, `0`, `true`, `"AA=="`, `"AA\n=="`} {
		c.emit("json uns "+hx([]byte(d)), goUnmarshalNs([]byte(d)))
	}
	// ---- shares ----
	pool := c.userNamespaces(3)
	for i := 0; i < c.n(40, 600); i++ {
		bl, _ := c.randBlob(pool[c.rng.Intn(len(pool))], c.rng.Pick([]int{1, 400, 478, 479, 1000}), c.rng.Chance(1, 2)).blob()
		sh, err := bl.ToShares()
		if err != nil || len(sh) == 0 {
			continue
		}
		s := sh[c.rng.Intn(len(sh))]
		doc, err := s.MarshalJSON()
		c.emit("json mshare "+hx(s.ToBytes()), okOr(err, dig(doc)))
		c.emit("json ushare "+hx(doc), goUnmarshalShare(doc))
		c.oracle()
		if goUnmarshalShare(doc) != "ok "+dig(s.ToBytes()) {
			c.violate("C19", "", "Share.UnmarshalJSON(Share.MarshalJSON()) does not return the share", "", nil)
		}
		m := c.mutateDoc(doc)
		c.emit("json ushare "+hx(m), goUnmarshalShare(m))
	}
	// one receiver variable decodes a series of values; every result is kept (a copy of the value, as any
	// caller holding a Share / Namespace / Blob does) and must still be what it decoded to after the later
	// decodes into the same variable - and the value the receiver was copied from must be untouched
	for rep := 0; rep < c.n(10, 200); rep++ {
		bl, _ := c.randBlob(pool[c.rng.Intn(len(pool))], c.rng.Pick([]int{1000, 2000, 3000}), c.rng.Chance(1, 2)).blob()
		sh, err := bl.ToShares()
		if err != nil || len(sh) < 2 {
			continue
		}
		c.oracle()
		origin := append([]byte(nil), sh[0].ToBytes()...)
		recv := sh[0] // a copy of a share that lives elsewhere
		var kept []share.Share
		for _, s := range sh[1:] {
			doc, _ := s.MarshalJSON()
			if err := recv.UnmarshalJSON(doc); err != nil {
				c.violate("C19", "", "Share.UnmarshalJSON refuses Share.MarshalJSON() when the receiver already holds a share", "", nil)
			}
			kept = append(kept, recv)
		}
		if !bytes.Equal(sh[0].ToBytes(), origin) {
			c.violate("C19", "", "Share.UnmarshalJSON into a copy of a share changed the share it was copied from", "", nil)
		}
		for i := range kept {
			if !bytes.Equal(kept[i].ToBytes(), sh[i+1].ToBytes()) {
				c.violate("C19", "", fmt.Sprintf("share %d decoded from JSON into a reused receiver no longer equals the share that was encoded after later decodes into the same variable", i), "", nil)
				break
			}
		}
		// namespaces
		nsList := c.userNamespaces(4)
		nrecv := nsList[0]
		norigin := append([]byte(nil), nsList[0].Bytes()...)
		var nkept []share.Namespace
		for _, n := range nsList[1:] {
			doc, _ := n.MarshalJSON()
			if err := nrecv.UnmarshalJSON(doc); err != nil {
				c.violate("C19", "", "Namespace.UnmarshalJSON refuses Namespace.MarshalJSON() when the receiver already holds a namespace", "", nil)
			}
			nkept = append(nkept, nrecv)
		}
		if !bytes.Equal(nsList[0].Bytes(), norigin) {
			c.violate("C19", "", "Namespace.UnmarshalJSON into a copy of a namespace changed the namespace it was copied from", "", nil)
		}
		for i := range nkept {
			if !bytes.Equal(nkept[i].Bytes(), nsList[i+1].Bytes()) {
				c.violate("C19", "", "a namespace decoded from JSON into a reused receiver no longer equals the encoded one after later decodes into the same variable", "", nil)
				break
			}
		}
		// blobs
		var blobs []*share.Blob
		for k := 0; k < 3; k++ {
			b, _ := c.randBlob(pool[c.rng.Intn(len(pool))], c.rng.Pick([]int{5, 300, 1000}), k == 1).blob()
			blobs = append(blobs, b)
		}
		brecv := *blobs[0]
		borigin := blobStrJ(blobs[0])
		var bkept []share.Blob
		for _, b := range blobs[1:] {
			doc, _ := b.MarshalJSON()
			if err := brecv.UnmarshalJSON(doc); err != nil {
				c.violate("C19", "", "Blob.UnmarshalJSON refuses Blob.MarshalJSON() when the receiver already holds a blob", "", nil)
			}
			bkept = append(bkept, brecv)
		}
		if blobStrJ(blobs[0]) != borigin {
			c.violate("C19", "", "Blob.UnmarshalJSON into a copy of a blob changed the blob it was copied from", "", nil)
		}
		for i := range bkept {
			if blobStrJ(&bkept[i]) != blobStrJ(blobs[i+1]) {
				c.violate("C19", "", "a blob decoded from JSON into a reused receiver no longer equals the encoded one after later decodes into the same variable", "", nil)
				break
			}
		}
	}
	for _, n := range []int{0, 1, 510, 511, 512, 513, 514, 1024} {
		doc := []byte(`"` + base64.StdEncoding.EncodeToString(c.rng.Bytes(n)) + `"`)
		c.emit("json ushare "+hx(doc), goUnmarshalShare(doc))
	}
	c.emit("json ushare "+hx([]byte("null")), goUnmarshalShare([]byte("null")))
	// ---- blobs ----
	b64 := func(b []byte) string { return `"` + base64.StdEncoding.EncodeToString(b) + `"` }
	for i := 0; i < c.n(300, 8000); i++ {
		spec := c.randBlob(pool[c.rng.Intn(len(pool))], c.rng.Pick([]int{1, 2, 3, 4, 5, 127, 300}), c.rng.Chance(2, 5))
		bl, err := spec.blob()
		if err != nil {
			continue
		}
		doc, err := bl.MarshalJSON()
		op := "json mblob " + spec.String()
		c.emit(op, okOr(err, hx(doc)))
		c.nontrivial(op)
		c.emit("json ublob "+hx(doc), goUnmarshalBlob(doc))
		c.oracle()
		if goUnmarshalBlob(doc) != "ok "+blobStrJ(bl) {
			c.violate("C19", "", "Blob.UnmarshalJSON(Blob.MarshalJSON()) does not return an equal blob", string(doc), []string{op})
		}
		for k := 0; k < 2; k++ {
			m := c.mutateDoc(doc)
			c.emit("json ublob "+hx(m), goUnmarshalBlob(m))
		}
		// documents composed member by member
		id := spec.ns[1:]
		signer20 := c.rng.Bytes(20)
		members := map[string][]string{
			"namespace_id":      {b64(id), b64(id), b64(id), b64(id[:27]), b64(append(append([]byte{}, id...), 0)), `null`, `""`, b64(bytes.Repeat([]byte{0}, 28)), b64(append(bytes.Repeat([]byte{0}, 27), 1)), b64(append(bytes.Repeat([]byte{0}, 18), c.rng.Bytes(10)...))},
			"data":              {b64(spec.data), b64(spec.data), b64(spec.data), `""`, `null`, b64([]byte{0}), `"QR=="`, `"Q==="`, `"QQ="`, `"Q-Q="`},
			"share_version":     {"0", "1", "1", "0", "2", "127", "128", "255", "256", "4294967295", "4294967296", "18446744073709551616", "01", "null", "1.0", "-1", "1e0", `"1"`},
			"namespace_version": {"0", "0", "0", "1", "255", "256", "null", "4294967296", "00"},
			"signer":            {b64(signer20), b64(signer20), `null`, `""`, b64(signer20[:19]), b64(append(append([]byte{}, signer20...), 7)), b64(nil)},
		}
		keys := []string{"namespace_id", "data", "share_version", "namespace_version", "signer"}
		for k := 0; k < 6; k++ {
			var parts []string
			nm := c.rng.Range(0, 7)
			for j := 0; j < nm; j++ {
				key := keys[c.rng.Intn(len(keys))]
				if j < len(keys) && c.rng.Chance(3, 4) {
					key = keys[j] // mostly every member once, in order or not
				}
				vals := members[key]
				v := vals[c.rng.Intn(len(vals))]
				if c.rng.Chance(1, 2) {
					v = vals[c.rng.Intn(3)] // mostly plausible values
				}
				parts = append(parts, `"`+key+`":`+v)
			}
			if c.rng.Chance(1, 3) {
				for a := len(parts) - 1; a > 0; a-- {
					b := c.rng.Intn(a + 1)
					parts[a], parts[b] = parts[b], parts[a]
				}
			}
			sep := ","
			d := "{" + strings.Join(parts, sep) + "}"
			switch c.rng.Intn(12) {
			case 0:
				d = strings.Replace(d, ":", ": ", 1) // white space: outside the fragment
			case 1:
				d = strings.Replace(d, "data", "Data", 1) // encoding/json matches member names case-insensitively: outside
			case 2:
				d = strings.Replace(d, "{", `{"unknown":1,`, 1)
			case 3:
				d += "}"
			}
			op := "json ublob " + hx([]byte(d))
			c.emit(op, goUnmarshalBlob([]byte(d)))
			c.nontrivial(op)
			c.dist(fmt.Sprintf("composed-members=%d", nm))
		}
	}
	for _, d := range []string{`{}`, `null`, `[]`, `""`, `{`, `}`, `{"data":"AA=="`, `{"data":"AA==",}`, `{,}`, `{"data"}`, `{"data":}`} {
		c.emit("json ublob "+hx([]byte(d)), goUnmarshalBlob([]byte(d)))
	}
}
