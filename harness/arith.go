package main

import (
	"fmt"
	"math/bits"

	square "github.com/celestiaorg/go-square/v2"
	"github.com/celestiaorg/go-square/v2/inclusion"
	"github.com/celestiaorg/go-square/v2/share"
)

func init() {
	streams["ARITH"] = streamArith
	streamRules["ARITH"] = "exhaustive grids of the inclusion/square arithmetic helpers compared by block digests (one op = one block of consecutive arguments); non-trivial = distinct block or single-argument op; Go-side oracle re-checks the laws of C15 against an independent reference on a sub-grid Added: pure-function history (random order, repeated arguments, held results re-examined)."
	streams["ARITHLEN"] = streamArithLen
	streamRules["ARITHLEN"] = "exhaustive grids of CompactSharesNeeded / SparseSharesNeeded(+WithSigner) / AvailableBytesFrom* over all lengths up to the tier bound, block digests; Go-side oracle checks needed(available n)=n and needed(available n + 1)=n+1"
}

func safe(f func() string) (out string) {
	defer func() {
		if r := recover(); r != nil {
			out = "panic"
		}
	}()
	return f()
}

// arithVal mirrors Driver.arithVal on the real code.
func arithVal(fn string, a []uint64) uint64 {
	switch fn {
	case "rup":
		return uint64(inclusion.RoundUpPowerOfTwo(int(a[0])))
	case "rup2": // square.RoundUpPowerOfTwo
		return uint64(square.RoundUpPowerOfTwo(int(a[0])))
	case "rdown":
		v, err := inclusion.RoundDownPowerOfTwo(int(a[0]))
		if err != nil {
			return 0
		}
		return uint64(v)
	case "ispow":
		if square.IsPowerOfTwo(int(a[0])) {
			return 1
		}
		return 0
	case "minsq":
		return uint64(inclusion.BlobMinSquareSize(int(a[0])))
	case "size":
		return uint64(square.Size(int(a[0])))
	case "stw":
		return uint64(inclusion.SubTreeWidth(int(a[0]), int(a[1])))
	case "rumo":
		return uint64(inclusion.RoundUpByMultipleOf(int(a[0]), int(a[1])))
	case "nsi":
		return uint64(inclusion.NextShareIndex(int(a[0]), int(a[1]), int(a[2])))
	case "mmr":
		l, _ := inclusion.MerkleMountainRangeSizes(a[0], a[1])
		h := uint64(7)
		for _, x := range l {
			h = h*31 + x
		}
		return h
	case "csn":
		return uint64(share.CompactSharesNeeded(uint32(a[0])))
	case "ssn":
		return uint64(share.SparseSharesNeeded(uint32(a[0])))
	case "ssnws":
		return uint64(sparseSharesNeededWithSigner(uint32(a[0]), a[1] == 1))
	case "abc":
		return uint64(share.AvailableBytesFromCompactShares(int(a[0])))
	case "abs":
		return uint64(share.AvailableBytesFromSparseShares(int(a[0])))
	case "delim":
		// delimLen is unexported: observe it through MarshalDelimitedTx on small sizes and through
		// the counter otherwise (size+delim is what the counter adds)
		return uint64(delimLenViaAPI(int(a[0])))
	}
	panic("bad fn " + fn)
}

func delimLenViaAPI(n int) int {
	// a fresh counter: Add(n) moves it by n + delimLen(n) bytes
	c := share.NewCompactShareCounter()
	c.Add(n)
	total := 0
	sz, rem := c.Size(), c.Remainder()
	if rem == 0 {
		total = share.AvailableBytesFromCompactShares(sz)
	} else {
		total = share.AvailableBytesFromCompactShares(sz-1) + rem
	}
	return total - n
}

func (c *Ctx) arithGrid(fn string, lo, hi uint64, extra ...uint64) {
	op := fmt.Sprintf("arith grid %s %d %d", leanFn(fn), lo, hi)
	for _, e := range extra {
		op += fmt.Sprintf(" %d", e)
	}
	out := safe(func() string {
		h := uint64(14695981039346656037)
		args := make([]uint64, 1+len(extra))
		copy(args[1:], extra)
		for n := lo; n < hi; n++ {
			args[0] = n
			h = mixU(h, arithVal(fn, args))
		}
		return fmt.Sprintf("%016x", h)
	})
	c.emit(op, out)
	c.nontrivial(op)
	c.dist("grid:" + fn)
}

// the square package duplicates two helpers of inclusion; the model has one definition each
func leanFn(fn string) string {
	switch fn {
	case "rup2":
		return "rup"
	case "size":
		return "minsq"
	}
	return fn
}

func (c *Ctx) arith1(fn string, args ...uint64) {
	op := "arith " + leanFn(fn)
	for _, a := range args {
		op += fmt.Sprintf(" %d", a)
	}
	out := safe(func() string {
		switch fn {
		case "rdown":
			v, err := inclusion.RoundDownPowerOfTwo(int(args[0]))
			if err != nil {
				return "err"
			}
			return fmt.Sprintf("ok %d", v)
		case "ispow":
			return b2s(square.IsPowerOfTwo(int(args[0])))
		case "mmr":
			l, err := inclusion.MerkleMountainRangeSizes(args[0], args[1])
			if err != nil {
				return "err"
			}
			s := make([]int, len(l))
			for i, x := range l {
				s[i] = int(x)
			}
			return intList(s)
		}
		return fmt.Sprint(arithVal(fn, args))
	})
	c.emit(op, out)
	c.nontrivial(op)
	c.dist("single:" + fn)
}

// ---- independent reference for the laws of C15 (Go-side oracle) ----

func refIsPow2(n uint64) bool { return n != 0 && bits.OnesCount64(n) == 1 }
func refLeastPow2Ge(n uint64) uint64 {
	p := uint64(1)
	for p < n {
		p *= 2
	}
	return p
}
func refMinSide(n uint64) uint64 {
	s := uint64(1)
	for s*s < n {
		s *= 2
	}
	return s
}
func refCeilDiv(a, b uint64) uint64 { return (a + b - 1) / b }

func (c *Ctx) oracleC15(n, t uint64) {
	c.oracle()
	fail := func(what string) {
		c.violate("C15", "", what, fmt.Sprintf("n=%d t=%d", n, t), []string{fmt.Sprintf("arith stw %d %d", n, t), fmt.Sprintf("arith mmr %d %d", n, inclusion.SubTreeWidth(int(n), int(t)))})
	}
	w := uint64(inclusion.SubTreeWidth(int(n), int(t)))
	ms := refMinSide(n)
	if !refIsPow2(w) {
		fail("subtree width is not a power of two")
	}
	if w > ms {
		fail("subtree width exceeds the minimal square side")
	}
	want := refLeastPow2Ge(refCeilDiv(n, t))
	if want > ms {
		want = ms
	}
	if w != want {
		fail(fmt.Sprintf("subtree width %d is not min(least pow2 >= ceil(n/t), minSide) = %d", w, want))
	}
	if w == 0 || n/w > 1<<14 {
		return // the mountain range of a huge blob under a tiny width has millions of entries: widths only
	}
	sizes, err := inclusion.MerkleMountainRangeSizes(n, w)
	if err != nil {
		fail("mountain range sizes returned an error")
		return
	}
	sum, prev := uint64(0), uint64(1)<<62
	for _, s := range sizes {
		if !refIsPow2(s) || s > w || s > prev {
			fail(fmt.Sprintf("mountain range sizes %v are not non-increasing powers of two <= width %d", sizes, w))
			break
		}
		prev = s
		sum += s
	}
	if sum != n {
		fail(fmt.Sprintf("mountain range sizes %v do not sum to n", sizes))
	}
}

func (c *Ctx) oracleC15n(n uint64) {
	c.oracle()
	fail := func(what string, op string) {
		c.violate("C15", "", what, fmt.Sprintf("n=%d", n), []string{op})
	}
	up := uint64(inclusion.RoundUpPowerOfTwo(int(n)))
	if up != refLeastPow2Ge(n) {
		fail(fmt.Sprintf("RoundUpPowerOfTwo(%d)=%d is not the least power of two >= n", n, up), fmt.Sprintf("arith rup %d", n))
	}
	if up2 := uint64(square.RoundUpPowerOfTwo(int(n))); up2 != up {
		fail("square.RoundUpPowerOfTwo differs from inclusion.RoundUpPowerOfTwo", fmt.Sprintf("arith rup %d", n))
	}
	down, err := inclusion.RoundDownPowerOfTwo(int(n))
	if n == 0 {
		if err == nil {
			fail("RoundDownPowerOfTwo(0) did not fail", "arith rdown 0")
		}
	} else {
		wantDown := refLeastPow2Ge(n)
		if wantDown != n {
			wantDown /= 2
		}
		if err != nil || uint64(down) != wantDown {
			fail(fmt.Sprintf("RoundDownPowerOfTwo(%d)=%d is not the greatest power of two <= n", n, down), fmt.Sprintf("arith rdown %d", n))
		}
	}
	if square.IsPowerOfTwo(int(n)) != refIsPow2(n) {
		fail("IsPowerOfTwo wrong", fmt.Sprintf("arith ispow %d", n))
	}
	if ms := uint64(inclusion.BlobMinSquareSize(int(n))); ms != refMinSide(n) {
		fail(fmt.Sprintf("BlobMinSquareSize(%d)=%d is not the least power of two s with s*s >= n", n, ms), fmt.Sprintf("arith minsq %d", n))
	}
	if sz := uint64(square.Size(int(n))); sz != refMinSide(n) {
		fail(fmt.Sprintf("square.Size(%d)=%d is not the minimal side", n, sz), fmt.Sprintf("arith minsq %d", n))
	}
}

func (c *Ctx) oracleNSI(cursor, n, t uint64) {
	c.oracle()
	w := uint64(inclusion.SubTreeWidth(int(n), int(t)))
	got := uint64(inclusion.NextShareIndex(int(cursor), int(n), int(t)))
	want := refCeilDiv(cursor, w) * w
	if got != want {
		c.violate("C15", "", fmt.Sprintf("NextShareIndex(%d,%d,%d)=%d is not the least multiple of width %d at or after the cursor (%d)", cursor, n, t, got, w, want), "",
			[]string{fmt.Sprintf("arith nsi %d %d %d", cursor, n, t)})
	}
}

// pureHistory: the arithmetic helpers are pure functions - their results must not depend on what was
// computed before, and a slice they returned must not change when they are called again. Random order,
// repeated arguments, long mountain ranges (n up to 64 k with small widths), results held across calls.
func (c *Ctx) pureHistory() {
	type held struct {
		n, w  uint64
		sl    []uint64
		first string
	}
	var hs []held
	str := func(l []uint64) string { return fmt.Sprint(len(l), ":", l) }
	check := func(h held) {
		c.oracle()
		if str(h.sl) != h.first {
			c.violate("C15", "", fmt.Sprintf("the slice MerkleMountainRangeSizes(%d, %d) returned earlier was changed by later calls", h.n, h.w), "", []string{fmt.Sprintf("arith mmr %d %d", h.n, h.w)})
		}
		again, err := inclusion.MerkleMountainRangeSizes(h.n, h.w)
		if err != nil || str(again) != h.first {
			c.violate("C15", "", fmt.Sprintf("MerkleMountainRangeSizes(%d, %d) returns a different result than it did earlier in the same process", h.n, h.w), "", []string{fmt.Sprintf("arith mmr %d %d", h.n, h.w)})
		}
	}
	for i := 0; i < c.n(3000, 40000); i++ {
		w := uint64(1) << uint(c.rng.Intn(8))
		n := uint64(c.rng.Range(1, 70)) * w
		switch c.rng.Intn(4) {
		case 0:
			n = uint64(c.rng.Pick([]int{16, 17, 31, 32, 33, 64, 65})) * w
		case 1:
			n += uint64(c.rng.Intn(int(w)))
		case 2:
			n = uint64(c.rng.Range(1, 1<<16))
		}
		if len(hs) > 0 && c.rng.Chance(1, 3) { // repeat an earlier argument pair
			h := hs[c.rng.Intn(len(hs))]
			n, w = h.n, h.w
		}
		l, err := inclusion.MerkleMountainRangeSizes(n, w)
		if err != nil {
			continue
		}
		hs = append(hs, held{n, w, l, str(l)})
		if len(hs) > 64 {
			check(hs[0])
			hs = hs[1:]
		}
		if c.rng.Chance(1, 4) {
			check(hs[c.rng.Intn(len(hs))])
		}
		// scalar helpers twice with something else in between
		a := uint64(c.rng.Range(1, 1<<20))
		t := uint64(c.rng.Pick([]int{1, 2, 63, 64, 65}))
		w1 := inclusion.SubTreeWidth(int(a), int(t))
		_ = inclusion.SubTreeWidth(int(n), int(t))
		_ = inclusion.BlobMinSquareSize(int(n))
		if w2 := inclusion.SubTreeWidth(int(a), int(t)); w1 != w2 {
			c.violate("C15", "", fmt.Sprintf("SubTreeWidth(%d, %d) returned %d and then %d", a, t, w1, w2), "", nil)
		}
	}
	for _, h := range hs {
		check(h)
	}
}

func streamArith(c *Ctx) {
	c.newCase()
	c.pureHistory()
	blk := uint64(4096)
	maxN := uint64(1) << 12
	maxLen := uint64(1) << 16
	if c.thorough {
		maxN = 1 << 18
		maxLen = 1 << 22
	}
	// single-argument helpers, every n up to maxLen (block digests)
	for _, fn := range []string{"rup", "rup2", "rdown", "ispow", "minsq", "size"} {
		for lo := uint64(0); lo < maxLen; lo += blk {
			c.arithGrid(fn, lo, lo+blk)
		}
	}
	c.stats.Exhaustive = append(c.stats.Exhaustive, fmt.Sprintf("rup/rdown/ispow/minsq/size for every n < %d", maxLen))
	// subtree width and mountain ranges: every n ≤ maxN × every t in 1..130
	for t := uint64(1); t <= 130; t++ {
		for lo := uint64(1); lo < maxN+1; lo += blk {
			c.arithGrid("stw", lo, lo+blk, t)
		}
	}
	c.stats.Exhaustive = append(c.stats.Exhaustive, fmt.Sprintf("SubTreeWidth for every n in 1..%d x every t in 1..130", maxN))
	for w := uint64(1); w <= 1024; w *= 2 {
		// lists have n/w entries: keep n <= 4096*w so a block stays cheap
		for lo := uint64(0); lo < maxN && lo < 4096*w; lo += blk {
			c.arithGrid("mmr", lo, lo+blk, w)
		}
	}
	// alignment: every cursor up to 2^10 (2^14) × widths / (n,t) samples
	maxCur := uint64(1) << 10
	if c.thorough {
		maxCur = 1 << 14
	}
	for v := uint64(1); v <= 1024; v *= 2 {
		c.arithGrid("rumo", 0, maxCur, v)
	}
	for _, v := range []uint64{3, 5, 6, 7, 9, 100} {
		c.arithGrid("rumo", 0, maxCur, v)
	}
	nsiN := []uint64{1, 2, 3, 4, 5, 8, 9, 15, 16, 17, 63, 64, 65, 100, 127, 128, 129, 255, 256, 257, 1000, 4095, 4096, 4097, 16384}
	nsiT := []uint64{1, 2, 3, 5, 8, 63, 64, 65, 128}
	for _, n := range nsiN {
		for _, t := range nsiT {
			c.arithGrid("nsi", 0, maxCur, n, t)
		}
	}
	c.stats.Exhaustive = append(c.stats.Exhaustive, fmt.Sprintf("RoundUpByMultipleOf / NextShareIndex for every cursor < %d x widths 1..1024 / %d (n,t) pairs", maxCur, len(nsiN)*len(nsiT)))
	// neighbourhoods of perfect squares (floating-point side computation)
	nk := c.n(4000, 400000)
	for i := 0; i < nk; i++ {
		var k uint64
		switch {
		case i < 2048:
			k = uint64(i + 1)
		default:
			k = 1 + c.rng.U64()%(1<<26)
		}
		if i%7 == 0 { // powers of two and their neighbours
			k = uint64(1)<<uint(c.rng.Intn(26)) + uint64(c.rng.Intn(3)) - 1
			if k == 0 {
				k = 1
			}
		}
		for _, n := range []uint64{k*k - 1, k * k, k*k + 1} {
			c.arith1("minsq", n)
			c.oracleC15n(n)
		}
	}
	// a few single ops with list-valued results, and BlobSharesUsedNonInteractiveDefaults
	for i := 0; i < c.n(300, 5000); i++ {
		n := uint64(c.rng.Range(1, 5000))
		t := uint64(c.rng.Pick([]int{1, 2, 3, 5, 8, 63, 64, 65, 128}))
		w := uint64(inclusion.SubTreeWidth(int(n), int(t)))
		c.arith1("mmr", n, w)
		c.arith1("rdown", n)
		k := c.rng.Range(0, 5)
		lens := make([]int, k)
		for j := range lens {
			lens[j] = c.rng.Range(1, 300)
		}
		cur := c.rng.Range(0, 2000)
		op := fmt.Sprintf("arith bsu %d %d %s", cur, t, dotIfEmpty(intList(lens)))
		used, idx := inclusion.BlobSharesUsedNonInteractiveDefaults(cur, int(t), lens...)
		c.emit(op, fmt.Sprintf("%d [%s]", used, natList(idx)))
	}
	c.rareArith()
	c.arith1("rdown", 0)
	// Go-side oracle on a sub-grid (the property's laws against an independent reference)
	on := uint64(1) << 10
	if c.thorough {
		on = 1 << 14
	}
	for n := uint64(1); n <= on; n++ {
		c.oracleC15n(n)
		for t := uint64(1); t <= 130; t++ {
			c.oracleC15(n, t)
		}
	}
	c.oracleC15n(0)
	for i := 0; i < c.n(20000, 400000); i++ {
		n := uint64(c.rng.Range(1, 1<<20))
		t := uint64(c.rng.Range(1, 130))
		c.oracleC15(n, t)
		c.oracleNSI(uint64(c.rng.Range(0, 1<<14)), n, t)
	}
}

func dotIfEmpty(s string) string {
	if s == "" {
		return "."
	}
	return s
}

func streamArithLen(c *Ctx) {
	c.newCase()
	blk := uint64(4096)
	maxLen := uint64(1) << 16
	if c.thorough {
		maxLen = 1 << 24
	}
	for _, fn := range []string{"csn", "ssn"} {
		for lo := uint64(0); lo < maxLen; lo += blk {
			c.arithGrid(fn, lo, lo+blk)
		}
	}
	for s := uint64(0); s <= 1; s++ {
		for lo := uint64(0); lo < maxLen; lo += blk {
			c.arithGrid("ssnws", lo, lo+blk, s)
		}
	}
	for _, fn := range []string{"abc", "abs"} {
		for lo := uint64(0); lo < maxLen/256; lo += blk {
			c.arithGrid(fn, lo, lo+blk)
		}
	}
	for lo := uint64(0); lo < maxLen; lo += blk {
		c.arithGrid("delim", lo, lo+blk)
	}
	for _, n := range []uint64{1<<21 - 1, 1 << 21, 1<<28 - 1, 1 << 28, 1<<32 - 1} {
		c.arith1("delim", n)
		c.arith1("csn", n)
		c.arith1("ssn", n)
	}
	c.rareLens()
	c.stats.Exhaustive = append(c.stats.Exhaustive, fmt.Sprintf("CompactSharesNeeded/SparseSharesNeeded(+WithSigner)/delimLen for every length < %d; AvailableBytesFrom* for every n < %d", maxLen, maxLen/256))
	// oracle: exact inverses
	for n := 1; n < int(maxLen/256); n++ {
		c.oracle()
		ac := share.AvailableBytesFromCompactShares(n)
		if share.CompactSharesNeeded(uint32(ac)) != n || share.CompactSharesNeeded(uint32(ac+1)) != n+1 {
			c.violate("C13", "", fmt.Sprintf("compact: needed(available(%d)) = %d, needed(available+1) = %d", n, share.CompactSharesNeeded(uint32(ac)), share.CompactSharesNeeded(uint32(ac+1))), "",
				[]string{fmt.Sprintf("arith abc %d", n), fmt.Sprintf("arith csn %d", ac), fmt.Sprintf("arith csn %d", ac+1)})
		}
		as := share.AvailableBytesFromSparseShares(n)
		if share.SparseSharesNeeded(uint32(as)) != n || share.SparseSharesNeeded(uint32(as+1)) != n+1 {
			c.violate("C13", "", fmt.Sprintf("sparse: needed(available(%d)) = %d, needed(available+1) = %d", n, share.SparseSharesNeeded(uint32(as)), share.SparseSharesNeeded(uint32(as+1))), "",
				[]string{fmt.Sprintf("arith abs %d", n), fmt.Sprintf("arith ssn %d", as), fmt.Sprintf("arith ssn %d", as+1)})
		}
	}
}

// logU draws a value whose bit length is uniform in [1, maxBits] (so large and small magnitudes are
// equally likely), then optionally snaps it next to a "structured" value.
func (c *Ctx) logU(maxBits int) uint64 {
	b := c.rng.Range(1, maxBits)
	v := uint64(1)<<uint(b-1) | c.rng.U64()&(uint64(1)<<uint(b-1)-1)
	switch c.rng.Intn(8) {
	case 0: // a power of two and its neighbours
		v = uint64(1)<<uint(b-1) + uint64(c.rng.Intn(3)) - 1
	case 1: // a perfect square and its neighbours
		k := uint64(1)<<uint((b+1)/2-1) | c.rng.U64()&(uint64(1)<<uint((b+1)/2-1)-1)
		v = k*k + uint64(c.rng.Intn(3)) - 1
	case 2: // a power of four / 2^a * 3 and neighbours
		if c.rng.Bool() {
			v = uint64(1)<<uint(2*((b-1)/2)) + uint64(c.rng.Intn(3)) - 1
		} else {
			v = 3<<uint(b/2) + uint64(c.rng.Intn(3)) - 1
		}
	}
	if v == 0 {
		v = 1
	}
	return v
}

// rareArith: arguments a grid of small values and the obvious boundaries do not reach - large share
// counts (up to 2^28), thresholds of every magnitude (up to 2^31), residue coincidences n = m*t + {0, 1,
// t-1}, t = n, t = n +- 1, t > n, structured values (powers of two and four, perfect squares, 3*2^a and
// their neighbours), large cursors next to multiples of the width. Code vs model for every argument, the
// laws of C15 against the independent reference for every pair (seeded round 9).
func (c *Ctx) rareArith() {
	nr := c.n(6000, 120000)
	for i := 0; i < nr; i++ {
		n := c.logU(28)
		t := c.logU(31)
		switch c.rng.Intn(10) {
		case 0:
			t = n
		case 1:
			t = n + 1
		case 2:
			if n > 1 {
				t = n - 1
			}
		case 3: // n = m*t + r, r in {0, 1, t-1}
			t = c.logU(14)
			m := c.logU(14)
			r := []uint64{0, 1, t - 1}[c.rng.Intn(3)]
			n = m*t + r
		case 4: // small thresholds with large n
			t = uint64(c.rng.Range(1, 130))
		}
		if n == 0 {
			n = 1
		}
		if t == 0 {
			t = 1
		}
		c.arith1("stw", n, t)
		c.oracleC15(n, t)
		w := uint64(inclusion.SubTreeWidth(int(n), int(t)))
		var cur uint64
		switch c.rng.Intn(4) {
		case 0:
			cur = c.logU(24)
		case 1: // next to a multiple of the width
			if w > 0 {
				cur = (c.logU(20)/w)*w + uint64(c.rng.Intn(3))
				if cur > 0 {
					cur--
				}
			}
		default:
			cur = uint64(c.rng.Range(0, 1<<16))
		}
		c.arith1("nsi", cur, n, t)
		c.oracleNSI(cur, n, t)
		if i%4 == 0 {
			c.arith1("rumo", cur, uint64(1)<<uint(c.rng.Intn(20)))
			c.arith1("rumo", cur, c.logU(20))
		}
		if i%3 == 0 {
			m := c.logU(40)
			for _, fn := range []string{"rup", "rup2", "rdown", "ispow"} {
				c.arith1(fn, m)
			}
			c.oracleC15n(n)
			c.arith1("minsq", n)
			c.arith1("size", n)
		}
		if i%5 == 0 && w > 0 {
			// mountain ranges of large blobs: at most ~2^11 trees
			tot := n
			if tot/w > 2048 {
				tot = w*uint64(c.rng.Range(1, 2048)) + c.rng.U64()%w
			}
			c.arith1("mmr", tot, w)
			c.oracleMMR(tot, w)
		}
	}
	c.dist("rare-arith")
}

// oracleMMR: the sizes are powers of two, non-increasing, at most the width, and sum to the total.
func (c *Ctx) oracleMMR(total, w uint64) {
	c.oracle()
	l, err := inclusion.MerkleMountainRangeSizes(total, w)
	ok := err == nil
	var sum, prev uint64 = 0, ^uint64(0)
	for _, x := range l {
		if !refIsPow2(x) || x > w || x > prev {
			ok = false
		}
		prev = x
		sum += x
	}
	if !ok || sum != total {
		c.violate("C15", "", fmt.Sprintf("MerkleMountainRangeSizes(%d, %d) = %v (err %v): not non-increasing powers of two <= the width summing to the total", total, w, l, err), "", []string{fmt.Sprintf("arith mmr %d %d", total, w)})
	}
}

// refSharesNeeded: closed form written from the share layout (first share holds `first` bytes, the
// others `cont`), independent of the code under test.
func refSharesNeeded(n, first, cont uint64) uint64 {
	if n == 0 {
		return 0
	}
	if n <= first {
		return 1
	}
	return 1 + (n-first+cont-1)/cont
}

// rareLens: sequence lengths of every magnitude up to 2^32-1 and on the residues where a share fills
// exactly (first + k*cont + {-1, 0, 1}) for random k: code vs model vs the closed form.
func (c *Ctx) rareLens() {
	nr := c.n(8000, 200000)
	for i := 0; i < nr; i++ {
		n := c.logU(32)
		kind := c.rng.Intn(6)
		k := c.logU(23)
		d := uint64(c.rng.Intn(3))
		switch kind {
		case 0:
			n = 478 + 482*k + d - 1
		case 1:
			n = 458 + 482*k + d - 1
		case 2:
			n = 474 + 478*k + d - 1
		case 3:
			n = 1<<32 - 1 - uint64(c.rng.Intn(2000))
		}
		if n >= 1<<32 {
			n = 1<<32 - 1
		}
		c.arith1("csn", n)
		c.arith1("ssn", n)
		s := uint64(c.rng.Intn(2))
		c.arith1("ssnws", n, s)
		c.oracle()
		first := uint64(478)
		if s == 1 {
			first = 458
		}
		if got, want := uint64(share.CompactSharesNeeded(uint32(n))), refSharesNeeded(n, 474, 478); got != want {
			c.violate("C13", "", fmt.Sprintf("CompactSharesNeeded(%d) = %d, a sequence of that many bytes occupies %d shares", n, got, want), "", []string{fmt.Sprintf("arith csn %d", n)})
		}
		if got, want := uint64(sparseSharesNeededWithSigner(uint32(n), s == 1)), refSharesNeeded(n, first, 482); got != want {
			c.violate("C13", "", fmt.Sprintf("SparseSharesNeededWithSigner(%d, %v) = %d, a blob of that many bytes occupies %d shares", n, s == 1, got, want), "", []string{fmt.Sprintf("arith ssnws %d %d", n, s)})
		}
		if i%4 == 0 {
			m := c.logU(23)
			c.arith1("abc", m)
			c.arith1("abs", m)
			c.arith1("delim", c.logU(31))
		}
	}
	c.dist("rare-lens")
}
