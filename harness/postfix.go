//go:build !prefix

package main

import "github.com/celestiaorg/go-square/v2/share"

func sparseSharesNeededWithSigner(n uint32, signer bool) int {
	return share.SparseSharesNeededWithSigner(n, signer)
}
