package main

import (
	"encoding/hex"
	"fmt"
	"strings"
)

// RNG is splitmix64: every random choice of a run derives from one seed.
type RNG struct{ s uint64 }

func NewRNG(seed uint64) *RNG { return &RNG{s: seed*0x9E3779B97F4A7C15 + 0x1234567} }

func (r *RNG) U64() uint64 {
	r.s += 0x9E3779B97F4A7C15
	z := r.s
	z = (z ^ (z >> 30)) * 0xBF58476D1CE4E5B9
	z = (z ^ (z >> 27)) * 0x94D049BB133111EB
	return z ^ (z >> 31)
}

// Intn returns a value in [0, n).
func (r *RNG) Intn(n int) int {
	if n <= 0 {
		return 0
	}
	return int(r.U64() % uint64(n))
}

func (r *RNG) Range(lo, hi int) int     { return lo + r.Intn(hi-lo+1) }
func (r *RNG) Bool() bool               { return r.U64()&1 == 1 }
func (r *RNG) Chance(num, den int) bool { return r.Intn(den) < num }

func (r *RNG) Bytes(n int) []byte {
	b := make([]byte, n)
	for i := 0; i < n; i += 8 {
		v := r.U64()
		for j := 0; j < 8 && i+j < n; j++ {
			b[i+j] = byte(v >> (8 * j))
		}
	}
	return b
}

func (r *RNG) Pick(xs []int) int { return xs[r.Intn(len(xs))] }

func fnvStr(s string) uint64 {
	h := uint64(14695981039346656037)
	for i := 0; i < len(s); i++ {
		h = (h ^ uint64(s[i])) * 1099511628211
	}
	return h
}

func fnvBytes(b []byte) uint64 {
	h := uint64(14695981039346656037)
	for _, x := range b {
		h = (h ^ uint64(x)) * 1099511628211
	}
	return h
}

func hx(b []byte) string {
	if len(b) == 0 {
		return "-"
	}
	return hex.EncodeToString(b)
}

func hxList(l [][]byte) string {
	if len(l) == 0 {
		return "."
	}
	parts := make([]string, len(l))
	for i, b := range l {
		parts[i] = hx(b)
	}
	return strings.Join(parts, ",")
}

func dig(b []byte) string { return fmt.Sprintf("%016x", fnvBytes(b)) }

// digList mirrors Driver.digList: count and FNV over length-prefixed concatenation.
func digList(l [][]byte) string {
	h := uint64(14695981039346656037)
	for _, b := range l {
		h = (h ^ uint64(len(b)%256)) * 1099511628211
		h = (h ^ uint64(len(b)/256%256)) * 1099511628211
		for _, x := range b {
			h = (h ^ uint64(x)) * 1099511628211
		}
	}
	return fmt.Sprintf("n=%d H=%016x", len(l), h)
}

func mixU(h uint64, v uint64) uint64 {
	h = (h ^ (v & 0xffffffff)) * 1099511628211
	return (h ^ (v >> 32)) * 1099511628211
}

func b2s(b bool) string {
	if b {
		return "1"
	}
	return "0"
}

func natList(l []uint32) string {
	parts := make([]string, len(l))
	for i, v := range l {
		parts[i] = fmt.Sprint(v)
	}
	return strings.Join(parts, ",")
}

func intList(l []int) string {
	parts := make([]string, len(l))
	for i, v := range l {
		parts[i] = fmt.Sprint(v)
	}
	return strings.Join(parts, ",")
}
