package main

import (
	"encoding/base64"
	"encoding/binary"
	"encoding/json"
	"fmt"
	"strings"

	square "github.com/celestiaorg/go-square/v2"
	v1 "github.com/celestiaorg/go-square/v2/proto/blob/v1"
	"github.com/celestiaorg/go-square/v2/share"
	"google.golang.org/protobuf/proto"
)

func init() {
	streams["MALFORMED"] = streamMalformed
	streamRules["MALFORMED"] = "every decoder entry point of C16 on malformed 512-byte share lists (valid squares and sequences with corrupted namespaces, info bytes, sequence lengths, reserved bytes, truncated / reordered / duplicated shares, hand-assembled squares whose wrapped PFBs carry wrong share indexes or whose inner tx lies about blob sizes) and on malformed byte strings; outcome class (ok/err/panic) + value digest compared with the panic-aware model; oracle: no call panics; non-trivial = distinct corrupted list Added: nil and empty lists, padding between a sequence start and its continuation, cooperating index/size lies at the end of the square."
}

func (c *Ctx) corruptShares(list [][]byte) [][]byte {
	out := make([][]byte, len(list))
	for i := range list {
		out[i] = append([]byte(nil), list[i]...)
	}
	if len(out) == 0 {
		return out
	}
	for k := c.rng.Range(1, 3); k > 0; k-- {
		i := c.rng.Intn(len(out))
		switch c.rng.Intn(11) {
		case 0: // sequence length
			binary.BigEndian.PutUint32(out[i][30:], uint32(c.rng.Pick([]int{0, 1, 477, 478, 479, 4096, 1 << 20, 1<<32 - 1})))
		case 1: // info byte
			out[i][29] = byte(c.rng.Pick([]int{0, 1, 2, 3, 4, 5, 254, 255, c.rng.Intn(256)}))
		case 2: // reserved bytes (both candidate positions)
			v := uint32(c.rng.Pick([]int{0, 1, 29, 37, 38, 511, 512, 513, 1 << 16, 1<<32 - 1}))
			binary.BigEndian.PutUint32(out[i][30:], v)
			binary.BigEndian.PutUint32(out[i][34:], v)
		case 3: // namespace
			ns := [][]byte{share.TxNamespace.Bytes(), share.PayForBlobNamespace.Bytes(), share.TailPaddingNamespace.Bytes(), share.PrimaryReservedPaddingNamespace.Bytes(), v0ns(3).Bytes(), c.rng.Bytes(29)}
			copy(out[i], ns[c.rng.Intn(len(ns))])
		case 4: // drop
			out = append(out[:i], out[i+1:]...)
			if len(out) == 0 {
				return out
			}
		case 5: // duplicate
			out = append(out[:i+1], out[i:]...)
		case 6: // swap
			j := c.rng.Intn(len(out))
			out[i], out[j] = out[j], out[i]
		case 7: // truncate the list
			out = out[:i+1]
		case 8: // random payload bytes (delimiters)
			for n := 0; n < 8; n++ {
				out[i][38+c.rng.Intn(474)] = byte(c.rng.Intn(256))
			}
		case 9: // a 10-byte length delimiter of 2^63 or more at a unit start (int conversion hazards)
			v := []byte{0x80, 0x80, 0x80, 0x80, 0x80, 0x80, 0x80, 0x80, 0x80, 0x01}
			if c.rng.Bool() {
				for n := 0; n < 9; n++ {
					v[n] = 0x80 | byte(c.rng.Intn(128))
				}
			}
			copy(out[i][34:], v)
			copy(out[i][38:], v)
			binary.BigEndian.PutUint32(out[i][30:], uint32(c.rng.Pick([]int{34, 38, 474})))
		default: // all 0xff payload start: over-long varint
			for n := 34; n < 60; n++ {
				out[i][n] = 0xff
			}
		}
	}
	return out
}

func (c *Ctx) malformedOps(list [][]byte, key string) {
	c.newCase()
	shares, err := share.FromBytes(list)
	if err != nil {
		panic(err)
	}
	n := len(shares)
	c.emit("sh set "+hxList(list), "ok "+digList(list))
	c.nontrivial(key + digList(list))
	check := func(op, out string) {
		c.emit(op, out)
		c.oracle()
		if out == "panic" {
			c.violate("C16", "", fmt.Sprintf("%s panicked on %d well-sized shares (%s)", op, n, key), "", c.caseOps)
		}
	}
	o, _ := safeParseBlobs(shares)
	check(fmt.Sprintf("sh parseblobs 0 %d", n), o)
	o, _, _ = safeParseTxs(shares)
	check(fmt.Sprintf("sh parsetxs 0 %d", n), o)
	if n > 1 {
		lo := c.rng.Intn(n)
		hi := c.rng.Range(lo+1, n)
		o, _, _ = safeParseTxs(shares[lo:hi])
		check(fmt.Sprintf("sh parsetxs %d %d", lo, hi), o)
		o, _ = safeParseBlobs(shares[lo:hi])
		check(fmt.Sprintf("sh parseblobs %d %d", lo, hi), o)
		q := share.Sequence{Namespace: shares[lo].Namespace(), Shares: shares[lo:hi]}
		o, _ = safeSeqRaw(q)
		check(fmt.Sprintf("sh seqraw %d %d", lo, hi), o)
	}
	for _, ign := range []bool{false, true} {
		o, _ = safeParseShares(shares, ign)
		check("sh parseshares "+b2s(ign), o)
	}
	if n > 0 {
		q := share.Sequence{Namespace: shares[0].Namespace(), Shares: shares}
		o, _ = safeSeqRaw(q)
		check(fmt.Sprintf("sh seqraw 0 %d", n), o)
		i := c.rng.Intn(n)
		check(fmt.Sprintf("sh decode %d", i), safe(func() string { return shareDecodeStr(&shares[i]) }))
	}
	_, o = safeWPFBs(square.Square(shares))
	check("sh wpfbs", o)
	_, o = safeDeconstruct(square.Square(shares))
	check("sh deconstruct", o)
}

// handSquare assembles tx shares ++ pfb shares ++ blob shares ++ tail padding with arbitrary
// share indexes and declared sizes inside the wrapped PFB.
func (c *Ctx) handSquare() ([][]byte, string) {
	ns := c.userNamespaces(1)[0]
	nb := c.rng.Range(1, 3)
	var blobShares []share.Share
	sizes := make([]int, nb)
	starts := make([]int, nb)
	blobs := make([]*share.Blob, nb)
	for j := 0; j < nb; j++ {
		spec := c.randBlob(ns, c.sparseLen(4), c.rng.Chance(1, 3))
		b, _ := spec.blob()
		blobs[j] = b
		sizes[j] = len(spec.data)
		sh, _ := b.ToShares()
		starts[j] = len(blobShares)
		blobShares = append(blobShares, sh...)
	}
	txw := share.NewCompactShareSplitter(share.TxNamespace, 0)
	if c.rng.Bool() {
		txw.WriteTx(c.rng.Bytes(c.compactLen()))
	}
	txShares, _ := txw.Export()
	base := len(txShares) + 1
	idx := make([]uint32, nb)
	kind := "valid"
	for j := range idx {
		idx[j] = uint32(base + starts[j])
	}
	declared := append([]int(nil), sizes...)
	tail := c.rng.Intn(3)
	total := base + len(blobShares) + tail
	switch c.rng.Intn(8) {
	case 6, 7: // two cooperating lies: an index at / next to the end of the square and a tiny or huge declared size
		j := c.rng.Intn(nb)
		idx[j] = uint32(total + c.rng.Pick([]int{-1, 0, 0, 1}))
		declared[j] = c.rng.Pick([]int{0, 0, 1, 478, 1<<32 - 1})
		kind = "index-at-end+size"
	case 0:
		idx[c.rng.Intn(nb)] = uint32(c.rng.Pick([]int{0, 1, 1 << 20, 1<<32 - 1, base + len(blobShares), base + len(blobShares) + 1, 1000}))
		kind = "wrong-index"
	case 1:
		declared[c.rng.Intn(nb)] = c.rng.Pick([]int{0, 1, 1 << 20, 1<<32 - 1, 479, 100000})
		kind = "lying-size"
	case 2:
		idx = idx[:c.rng.Intn(nb)]
		kind = "fewer-indexes"
	case 3:
		idx = append(idx, 3)
		kind = "more-indexes"
	}
	inner := mockPFB(declared, c.rng.Bytes(5))
	iw := &v1.IndexWrapper{Tx: inner, ShareIndexes: idx, TypeId: "INDX"}
	if c.rng.Chance(1, 8) {
		iw.TypeId = "NOPE"
		kind += "+badtype"
	}
	wraw, _ := proto.Marshal(iw)
	pw := share.NewCompactShareSplitter(share.PayForBlobNamespace, 0)
	pw.WriteTx(wraw)
	pfbShares, _ := pw.Export()
	if len(pfbShares) != 1 {
		return nil, ""
	}
	all := append(append(append([]share.Share(nil), txShares...), pfbShares...), blobShares...)
	all = append(all, share.TailPaddingShares(tail)...)
	return sharesToBytes(all), kind
}

// jsonTotality: the JSON decoders of shares, namespaces and blobs on byte strings of every kind - payloads of
// every size around the accepted ones (far too long included), corrupted base64, arbitrary bytes, deep nesting,
// lists: an error or a value, never a panic
func (c *Ctx) jsonTotality() {
	var docs [][]byte
	q := func(b []byte) []byte { return []byte(`"` + base64.StdEncoding.EncodeToString(b) + `"`) }
	for _, n := range []int{0, 1, 2, 3, 19, 20, 21, 27, 28, 29, 30, 57, 58, 510, 511, 512, 513, 514, 515, 600, 1023, 1024, 1025, 4096, 70000} {
		docs = append(docs, q(c.rng.Bytes(n)), q(make([]byte, n)))
	}
	for _, d := range []string{``, ` `, `null`, `true`, `0`, `-1`, `1e999`, `""`, `"`, `"=`, `"===="`, `"A"`, `[]`, `[0]`, `[256]`, `[-1]`, `[1.5]`, `{}`, `{"data":1}`, `{"data":[1,2]}`, `{"data":"AA==","share_version":-1}`,
		`{"share_version":1e10}`, `{"namespace_id":{}}`, `{"signer":[0]}`, `{"data":null,"data":"AA=="}`, strings.Repeat("[", 20000), strings.Repeat(`{"data":`, 5000), `"\u0000"`, `"\ud800"`, "\"\xff\xfe\"", `"AA==" x`} {
		docs = append(docs, []byte(d))
	}
	base := append([][]byte(nil), docs...)
	for i := 0; i < c.n(400, 20000); i++ {
		d := append([]byte(nil), base[c.rng.Intn(len(base))]...)
		if len(d) > 2000 {
			d = d[:2000]
		}
		for k := c.rng.Range(1, 3); k > 0 && len(d) > 0; k-- {
			switch c.rng.Intn(4) {
			case 0:
				d[c.rng.Intn(len(d))] ^= 1 << uint(c.rng.Intn(8))
			case 1:
				d = d[:c.rng.Intn(len(d))]
			case 2:
				d = append(d, byte(c.rng.Intn(256)))
			default:
				j := c.rng.Intn(len(d))
				d = append(d[:j], append([]byte{byte(c.rng.Intn(256))}, d[j:]...)...)
			}
		}
		docs = append(docs, d)
	}
	for _, d := range docs {
		d := d
		for _, dec := range []struct {
			name string
			run  func() string
		}{
			{"Share.UnmarshalJSON", func() string { var s share.Share; return fmt.Sprint(s.UnmarshalJSON(d) == nil) }},
			{"Namespace.UnmarshalJSON", func() string { var n share.Namespace; return fmt.Sprint(n.UnmarshalJSON(d) == nil) }},
			{"Blob.UnmarshalJSON", func() string { var b share.Blob; return fmt.Sprint(b.UnmarshalJSON(d) == nil) }},
			{"json.Unmarshal into []Share", func() string { var l []share.Share; return fmt.Sprint(json.Unmarshal(d, &l) == nil) }},
			{"json.Unmarshal into []*Blob", func() string { var l []*share.Blob; return fmt.Sprint(json.Unmarshal(d, &l) == nil) }},
			{"json.Unmarshal into []Namespace", func() string { var l []share.Namespace; return fmt.Sprint(json.Unmarshal(d, &l) == nil) }},
		} {
			c.oracle()
			c.stats.Ops++
			if safe(dec.run) == "panic" {
				c.violate("C16", "", fmt.Sprintf("%s panicked on a %d-byte document", dec.name, len(d)), trunc(string(d), 300), []string{dec.name + " " + trunc(hx(d), 4000)})
			}
		}
	}
	c.dist("json-totality")
	c.stats.Exhaustive = append(c.stats.Exhaustive, "JSON decoders of Share / Namespace / Blob (direct and through json.Unmarshal into lists) on base64 payloads of 25 sizes from 0 to 70000 bytes, hand-written malformed documents and their mutations")
}

func streamMalformed(c *Ctx) {
	c.jsonTotality()
	// the empty inputs: a nil and a zero-length share list through every decoder (incl. Deconstruct / IsEmpty)
	c.malformedOps(nil, "nil-list")
	c.malformedOps([][]byte{}, "empty-list")
	// a sequence start, then padding of each kind, then a continuation share before any new start
	{
		ns := c.userNamespaces(1)[0]
		spec := c.randBlob(ns, 1200, false)
		b, _ := spec.blob()
		sh, _ := b.ToShares()
		raw := sharesToBytes(sh)
		pads := [][]byte{sharesToBytes(share.TailPaddingShares(1))[0], sharesToBytes(share.ReservedPaddingShares(1))[0]}
		if np, err := share.NamespacePaddingShare(ns, 0); err == nil {
			pads = append(pads, np.ToBytes())
		}
		for _, pad := range pads {
			c.malformedOps([][]byte{raw[0], pad, raw[1]}, "start+padding+continuation")
			c.malformedOps([][]byte{raw[0], pad, pad, raw[1], raw[2]}, "start+padding+continuation")
			c.malformedOps([][]byte{pad, raw[1]}, "padding+continuation")
			c.malformedOps([][]byte{raw[0], raw[1], pad, raw[2]}, "start+padding+continuation")
		}
	}
	// hand-assembled sequence starts: every (namespace kind, share version) with declared sequence lengths in
	// the windows where the capacity of a first share changes (compact 474, with a signer 454 / 458, sparse
	// 478, two shares) - a decoder that predicts the share count from the length alone, or takes the first
	// share's payload for the whole sequence, leaves the buffer exactly there (seeded change C16-O)
	{
		lens := []uint32{0, 1, 2, 453, 454, 455, 456, 457, 458, 459, 460, 470, 473, 474, 475, 477, 478, 479, 482, 483, 511, 512, 935, 936, 940, 941, 955, 956, 959, 960, 961, 1 << 16, 1<<31 - 1, 1 << 31, 1<<32 - 1}
		nss := [][]byte{share.TxNamespace.Bytes(), share.PayForBlobNamespace.Bytes(), c.userNamespaces(1)[0].Bytes(), share.PrimaryReservedPaddingNamespace.Bytes()}
		for ni, ns := range nss {
			for _, ver := range []byte{0, 1, 2, 127} {
				if ver >= 2 && ni >= 2 {
					continue
				}
				for li, l := range lens {
					first := c.rng.Bytes(512)
					copy(first, ns)
					first[29] = ver<<1 | 1
					first[30], first[31], first[32], first[33] = byte(l>>24), byte(l>>16), byte(l>>8), byte(l)
					if ni < 2 && c.rng.Bool() {
						first[34], first[35], first[36], first[37] = 0, 0, 0, byte(38+c.rng.Intn(4)*20)
					}
					c.malformedOps([][]byte{first}, "hand-start")
					if (li+ni)%3 == 0 {
						cont := c.rng.Bytes(512)
						copy(cont, ns)
						cont[29] = ver << 1
						c.malformedOps([][]byte{first, cont}, "hand-start+cont")
					}
				}
			}
		}
		c.dist("hand-start")
	}
	nc := c.n(1500, 60000)
	for i := 0; i < nc; i++ {
		switch c.rng.Intn(5) {
		case 0, 1: // corrupted constructed square
			sc := c.genSquareCase([]int{2, 4, 4, 8})
			b := safeBuild(rawList(sc.txs), sc.max, sc.thr)
			if b.err != nil {
				continue
			}
			list := sharesToBytes(b.sq)
			if c.rng.Chance(9, 10) {
				list = c.corruptShares(list)
			}
			c.malformedOps(list, "square")
			c.dist("corrupted-square")
		case 2: // hand-assembled square with lying wrapped PFBs
			list, kind := c.handSquare()
			if list == nil {
				continue
			}
			if c.rng.Chance(1, 4) {
				list = c.corruptShares(list)
				kind += "+corrupt"
			}
			c.malformedOps(list, kind)
			c.dist("hand:" + kind)
		case 3: // corrupted blob / tx sequences
			var list [][]byte
			if c.rng.Bool() {
				spec := c.randBlob(c.userNamespaces(1)[0], c.sparseLen(5), c.rng.Bool())
				b, _ := spec.blob()
				sh, _ := b.ToShares()
				list = sharesToBytes(sh)
			} else {
				w := share.NewCompactShareSplitter(share.TxNamespace, 0)
				for k := c.rng.Range(1, 5); k > 0; k-- {
					w.WriteTx(c.rng.Bytes(c.compactLen()))
				}
				sh, _ := w.Export()
				list = sharesToBytes(sh)
			}
			c.malformedOps(c.corruptShares(list), "sequence")
			c.dist("corrupted-sequence")
		default: // arbitrary shares
			k := c.rng.Range(1, 5)
			list := make([][]byte, k)
			for j := range list {
				list[j] = c.rng.Bytes(512)
				if c.rng.Chance(2, 3) {
					ns := [][]byte{share.TxNamespace.Bytes(), share.PayForBlobNamespace.Bytes(), v0ns(5).Bytes(), share.TailPaddingNamespace.Bytes()}
					copy(list[j], ns[c.rng.Intn(len(ns))])
					list[j][29] = byte(c.rng.Intn(4))
				}
			}
			c.malformedOps(list, "random")
			c.dist("random-shares")
		}
	}
	// byte-string decoders: through the PROTO ops
	c.newCase()
	for i := 0; i < c.n(3000, 100000); i++ {
		var r []byte
		if c.rng.Bool() {
			r = c.rng.Bytes(c.rng.Intn(64))
		} else {
			spec := c.randBlob(c.userNamespaces(1)[0], c.rng.Range(1, 40), c.rng.Bool())
			r = c.makeBlobTx([]blobSpec{spec}, 3)
			r = c.mutate(r)
			if c.rng.Bool() {
				r = c.mutate(r)
			}
		}
		for _, f := range []struct {
			op  string
			run func([]byte) string
		}{{"proto blobtx", decodedStr}, {"proto iw", iwStr}, {"proto blob", blobUnmarshalStr}} {
			out := f.run(r)
			op := f.op + " " + hx(r)
			c.emit(op, out)
			c.oracle()
			if out == "panic" {
				c.violate("C16", "", f.op+" panicked on a byte string", "", []string{op})
			}
		}
		c.dist("byte-strings")
	}
}
