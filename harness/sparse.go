package main

import (
	"bytes"
	"fmt"
	"sort"
	"strings"
	"sync"

	"github.com/celestiaorg/go-square/v2/share"
)

func init() {
	streams["SPARSE"] = streamSparse
	streamRules["SPARSE"] = "blob sequences (share versions 0 and 1 with signers, lengths around the 458/478/482 capacity boundaries, namespace padding between blobs, reserved/tail padding around them): real SparseShareSplitter vs model vs independent Spec.sparseSeq; ParseBlobs, ParseShares; oracles for C08 (round trip), C10 (format), C13 (predicted share count), C20 (sequence tiling); non-trivial = distinct (version,length,padding) list with a multi-share blob Added: blobs whose data are windows of one buffer, exhaustive look-alike namespaces, boundary signers, refused padding requests between writes, twelve goroutines with independent splitters."
	streams["RANGE"] = streamRange
	streamRules["RANGE"] = "namespace-ordered share lists over small namespace alphabets x query namespaces present / absent-between / below / above; oracle: result == the contiguous run of the query namespace; non-trivial = distinct (list shape, query) Added: near-miss queries of present namespaces (other version, one byte changed)."
}

func seqsStr(seqs []share.Sequence) string {
	parts := make([]string, len(seqs))
	for i, q := range seqs {
		parts[i] = fmt.Sprintf("%s/%d/%s", hx(q.Namespace.Bytes()), len(q.Shares), digList(sharesToBytes(q.Shares)))
	}
	return "[" + strings.Join(parts, " ") + "]"
}

func safeParseBlobs(sh []share.Share) (out string, blobs []*share.Blob) {
	defer func() {
		if r := recover(); r != nil {
			out = "panic"
		}
	}()
	b, err := share.ParseBlobs(sh)
	if err != nil {
		return "err", nil
	}
	return "ok " + blobsStr(b), b
}

func safeParseShares(sh []share.Share, ign bool) (out string, seqs []share.Sequence) {
	defer func() {
		if r := recover(); r != nil {
			out = "panic"
		}
	}()
	s, err := share.ParseShares(sh, ign)
	if err != nil {
		return "err", nil
	}
	return "ok " + seqsStr(s), s
}

func safeSeqRaw(q share.Sequence) (out string, data []byte) {
	defer func() {
		if r := recover(); r != nil {
			out = "panic"
		}
	}()
	d, err := q.RawData()
	if err != nil {
		return "err", nil
	}
	return fmt.Sprintf("ok %d:%s", len(d), dig(d)), d
}

func (c *Ctx) sparseCase(specs []blobSpec, pads []int, resPad, tailPad int) {
	defer c.recoverCase()
	c.newCase()
	c.emit("sss new", "ok")
	sss := share.NewSparseShareSplitter()
	blobs := make([]*share.Blob, len(specs))
	desc := ""
	multi := false
	// representation variant: the blobs' data are consecutive WINDOWS of one buffer (each window's spare
	// capacity is the data of the blobs after it) - a writer that appends to the data it was given corrupts
	// the later blobs; the specs keep independent copies
	var flat, flat0 []byte
	var views [][]byte
	if len(specs) >= 2 && c.rng.Chance(1, 4) {
		for _, s := range specs {
			flat = append(flat, s.data...)
		}
		flat = append(flat, bytes.Repeat([]byte{0xa5}, 700)...)
		flat0 = append([]byte(nil), flat...)
		off := 0
		for _, s := range specs {
			views = append(views, flat[off:off+len(s.data)])
			off += len(s.data)
		}
	}
	defer func() {
		if flat != nil && !bytes.Equal(flat, flat0) {
			c.violate("C08", "", "writing blobs whose data are windows of one buffer modified that buffer (later blobs no longer hold the data they were created with)", "", c.caseOps)
		}
	}()
	for i, s := range specs {
		b, err := s.blob()
		if err == nil && views != nil {
			ns, _ := share.NewNamespaceFromBytes(s.ns)
			b, err = share.NewBlob(ns, views[i], s.ver, s.signer)
		}
		if err != nil {
			panic(err)
		}
		blobs[i] = b
		// C10: independent spec of the format, C13: predicted count
		own, err := b.ToShares()
		if err != nil {
			c.violate("C08", "", "ToShares returned an error for a valid blob", err.Error(), c.caseOps)
			return
		}
		c.emit("spec sparse "+s.String(), "ok "+digList(sharesToBytes(own)))
		c.oracle()
		pred := sparseSharesNeededWithSigner(uint32(len(s.data)), s.ver == 1)
		c.emit(fmt.Sprintf("arith ssnws %d %d", len(s.data), s.ver), fmt.Sprint(pred))
		if pred != len(own) {
			c.violate("C13", "", fmt.Sprintf("share-count prediction for a %d-byte version-%d blob is %d, the encoder produced %d shares", len(s.data), s.ver, pred, len(own)), "", c.caseOps)
		}
		if len(own) > 1 {
			multi = true
		}
		if c.rng.Chance(1, 8) {
			// an operation that must fail, and must leave the splitter exactly as it was
			before := sss.Count()
			var ferr error
			if i == 0 && c.rng.Bool() {
				ferr = share.NewSparseShareSplitter().WriteNamespacePaddingShares(1) // padding before any share: on a fresh splitter
			} else {
				ferr = sss.WriteNamespacePaddingShares(-1 - c.rng.Intn(3))
			}
			c.oracle()
			if ferr == nil || sss.Count() != before {
				c.violate("C08", "", "a namespace padding request that must be refused was accepted or changed the splitter", "", c.caseOps)
			}
		}
		err = sss.Write(b)
		c.emit("sss write "+s.String(), okOr(err, fmt.Sprintf("ok %d", sss.Count())))
		if i < len(pads) && pads[i] > 0 {
			err = sss.WriteNamespacePaddingShares(pads[i])
			c.emit(fmt.Sprintf("sss pad %d", pads[i]), okOr(err, fmt.Sprintf("ok %d", sss.Count())))
		}
		p := 0
		if i < len(pads) {
			p = pads[i]
		}
		desc += fmt.Sprintf("v%d:%d+%d ", s.ver, len(s.data), p)
	}
	shares := append([]share.Share(nil), sss.Export()...)
	c.emit("sss export", "ok "+digList(sharesToBytes(shares)))
	if resPad > 0 || tailPad > 0 {
		shares = append(append(share.ReservedPaddingShares(resPad), shares...), share.TailPaddingShares(tailPad)...)
		c.emit(fmt.Sprintf("sh wrap %d %d", resPad, tailPad), "ok "+digList(sharesToBytes(shares)))
	}
	n := len(shares)
	out, parsed := safeParseBlobs(shares)
	c.emit(fmt.Sprintf("sh parseblobs 0 %d", n), out)
	// C08: round trip
	c.oracle()
	ok := len(parsed) == len(blobs)
	if ok {
		for i := range blobs {
			if blobStr(parsed[i]) != blobStr(blobs[i]) || !bytes.Equal(parsed[i].Data(), blobs[i].Data()) {
				ok = false
			}
		}
	}
	if !ok {
		c.violate("C08", "", fmt.Sprintf("ParseBlobs of the shares written for [%s] returned %s", strings.TrimSpace(desc), trunc(out, 300)), "", c.caseOps)
	}
	// C20: sequence tiling
	for _, ign := range []bool{false, true} {
		o, seqs := safeParseShares(shares, ign)
		c.emit("sh parseshares "+b2s(ign), o)
		c.oracle()
		if seqs == nil && o != "ok []" {
			c.violate("C20", "", fmt.Sprintf("ParseShares(ignorePadding=%v) failed on shares written for [%s]: %s", ign, strings.TrimSpace(desc), o), "", c.caseOps)
			if _, perr := func() (s []share.Sequence, e error) {
				defer func() {
					if r := recover(); r != nil {
						e = nil
					}
				}()
				return share.ParseShares(shares, ign)
			}(); perr != nil && strings.Contains(perr.Error(), "but needed") {
				// the parser's own share-count prediction disagrees with what the encoder produced
				c.violate("C13", "", fmt.Sprintf("ParseShares predicts a different share count than the encoder produced for [%s]: %v", strings.TrimSpace(desc), perr), "", c.caseOps)
			}
			continue
		}
		if !ign {
			total := 0
			for _, q := range seqs {
				total += len(q.Shares)
			}
			if total != n {
				c.violate("C20", "", fmt.Sprintf("sequences cover %d of %d shares", total, n), "", c.caseOps)
			}
		} else {
			if len(seqs) != len(blobs) {
				c.violate("C20", "", fmt.Sprintf("with padding ignored %d sequences were returned for %d blobs", len(seqs), len(blobs)), "", c.caseOps)
			} else {
				for i, q := range seqs {
					_, d := safeSeqRaw(q)
					if !bytes.Equal(d, blobs[i].Data()) || !bytes.Equal(q.Namespace.Bytes(), blobs[i].Namespace().Bytes()) {
						c.violate("C20", "", fmt.Sprintf("sequence %d payload/namespace differs from blob %d (a %d-byte version-%d blob)", i, i, len(blobs[i].Data()), blobs[i].ShareVersion()), "", c.caseOps)
						break
					}
				}
			}
		}
	}
	// sequence payload extraction through the model too
	pos := resPad
	for i, b := range blobs {
		own, _ := b.ToShares()
		q := share.Sequence{Namespace: b.Namespace(), Shares: shares[pos : pos+len(own)]}
		o, _ := safeSeqRaw(q)
		c.emit(fmt.Sprintf("sh seqraw %d %d", pos, pos+len(own)), o)
		pos += len(own)
		if i < len(pads) {
			pos += pads[i]
		}
	}
	if multi {
		c.nontrivial(desc)
	}
}

func streamSparse(c *Ctx) {
	nss := c.userNamespaces(6)
	sort.Slice(nss, func(i, j int) bool { return bytes.Compare(nss[i].Bytes(), nss[j].Bytes()) < 0 })
	// every length 1..2000 for both versions (single blob)
	maxL := 2000
	for n := 1; n <= maxL; n++ {
		for v := 0; v < 2; v++ {
			if !c.thorough && n > 1000 && (n+v)%4 != 0 {
				continue
			}
			c.sparseCase([]blobSpec{c.randBlob(nss[n%len(nss)], n, v == 1)}, nil, 0, 0)
			c.dist(fmt.Sprintf("single-v%d", v))
		}
	}
	c.stats.Exhaustive = append(c.stats.Exhaustive, "every blob length 1..1000 x share versions 0 and 1 (quick; 1..2000 thorough)")
	if c.thorough {
		for k := 0; k < 200; k++ {
			for _, base := range []int{458 + 482*k, 478 + 482*k} {
				for d := -2; d <= 2; d++ {
					if base+d > 0 {
						c.sparseCase([]blobSpec{c.randBlob(nss[0], base+d, base%482 == 458%482)}, nil, 0, 0)
					}
				}
			}
		}
	}
	// independent objects used concurrently: 12 goroutines, each with its own splitter and blobs, must produce
	// exactly what they produce alone (package-level scratch state would show here)
	{
		type job struct {
			specs []blobSpec
			want  string
		}
		jobs := make([]job, 12)
		run := func(specs []blobSpec) string {
			w := share.NewSparseShareSplitter()
			for i, sp := range specs {
				b, err := sp.blob()
				if err != nil {
					return "err"
				}
				if w.Write(b) != nil {
					return "err"
				}
				if i%2 == 0 {
					_ = w.WriteNamespacePaddingShares(1)
				}
			}
			sh := w.Export()
			back, err := share.ParseBlobs(sh)
			if err != nil {
				return "parse-err " + digList(sharesToBytes(sh))
			}
			return digList(sharesToBytes(sh)) + blobsStr(back)
		}
		for j := range jobs {
			k := c.rng.Range(1, 4)
			jobs[j].specs = make([]blobSpec, k)
			for i := range jobs[j].specs {
				jobs[j].specs[i] = c.randBlob(nss[c.rng.Intn(len(nss))], c.sparseLen(4), c.rng.Chance(2, 5))
			}
			sort.SliceStable(jobs[j].specs, func(a, b int) bool { return bytes.Compare(jobs[j].specs[a].ns, jobs[j].specs[b].ns) < 0 })
			jobs[j].want = run(jobs[j].specs)
		}
		bad := make([]bool, len(jobs))
		var wg sync.WaitGroup
		for j := range jobs {
			wg.Add(1)
			go func(j int) {
				defer wg.Done()
				for r := 0; r < c.n(2500, 10000); r++ {
					if run(jobs[j].specs) != jobs[j].want {
						bad[j] = true
						return
					}
				}
			}(j)
		}
		wg.Wait()
		c.oracle()
		for j := range bad {
			if bad[j] {
				c.violate("C08", "", "a splitter round trip on its own blobs gives a different result while other goroutines run their own round trips", "", nil)
				break
			}
		}
	}
	// every look-alike of a reserved namespace: the low byte of tx (01), pay-for-blob (04), reserved padding
	// (ff) with one non-zero byte at each of the other nine positions of the user part
	for _, low := range []byte{0x01, 0x04, 0xff} {
		for pos := 0; pos < 9; pos++ {
			sub := make([]byte, 10)
			sub[9] = low
			sub[pos] = 0xab
			ns, err := share.NewV0Namespace(sub)
			if err != nil || ns.ValidateForBlob() != nil {
				continue
			}
			for _, n := range []int{5, 477, 478, 1000} {
				c.sparseCase([]blobSpec{c.randBlob(ns, n, n == 477)}, []int{2}, 0, 1)
			}
			c.dist("lookalike-namespace")
		}
	}
	c.stats.Exhaustive = append(c.stats.Exhaustive, "27 look-alikes of reserved namespaces x 4 blob sizes with namespace padding")
	nl := c.n(1200, 30000)
	for i := 0; i < nl; i++ {
		k := c.rng.Range(1, 6)
		specs := make([]blobSpec, k)
		pads := make([]int, k)
		for j := range specs {
			ns := nss[c.rng.Intn(len(nss))]
			specs[j] = c.randBlob(ns, c.sparseLen(5), c.rng.Chance(2, 5))
			if c.rng.Chance(1, 2) {
				pads[j] = c.rng.Range(0, 4)
			}
		}
		// a data square holds blobs in namespace order, but the round trip is stated for any sequence of
		// blobs: keep every other list in the order it was drawn
		if i%2 == 0 {
			sort.SliceStable(specs, func(a, b int) bool { return bytes.Compare(specs[a].ns, specs[b].ns) < 0 })
		} else {
			c.dist("unsorted-namespaces")
		}
		c.sparseCase(specs, pads, c.rng.Intn(3), c.rng.Intn(3))
		c.dist(fmt.Sprintf("blobs=%d", k))
	}
}

// synthetic 512-byte share with a given namespace
func (c *Ctx) synthShare(ns []byte) []byte {
	b := c.rng.Bytes(512)
	copy(b, ns)
	return b
}

func streamRange(c *Ctx) {
	alphabet := [][]byte{
		share.TxNamespace.Bytes(), share.PayForBlobNamespace.Bytes(), share.PrimaryReservedPaddingNamespace.Bytes(),
		v0ns(1, 0).Bytes(), v0ns(1, 1).Bytes(), v0ns(0xff).Bytes(), v0ns(bytes.Repeat([]byte{0xff}, 10)...).Bytes(),
		share.TailPaddingNamespace.Bytes(), share.ParitySharesNamespace.Bytes(),
	}
	sort.Slice(alphabet, func(i, j int) bool { return bytes.Compare(alphabet[i], alphabet[j]) < 0 })
	dedup := alphabet[:1]
	for _, a := range alphabet[1:] {
		if !bytes.Equal(a, dedup[len(dedup)-1]) {
			dedup = append(dedup, a)
		}
	}
	alphabet = dedup
	queries := append([][]byte{}, alphabet...)
	queries = append(queries, share.IntermediateStateRootsNamespace.Bytes(), v0ns(1, 0, 0).Bytes(), v0ns(2).Bytes(), bytes.Repeat([]byte{0}, 29), v0ns(0xfe).Bytes())
	nl := c.n(1500, 40000)
	for i := 0; i < nl; i++ {
		c.newCase()
		// choose a sorted multiset over the alphabet
		var list [][]byte
		shape := ""
		for a, ns := range alphabet {
			cnt := 0
			if c.rng.Chance(1, 2) {
				cnt = c.rng.Range(1, 3)
			}
			shape += fmt.Sprint(cnt)
			for j := 0; j < cnt; j++ {
				list = append(list, c.synthShare(ns))
			}
			_ = a
		}
		if i < 3 {
			list = nil // empty list
		}
		shares, err := share.FromBytes(list)
		if err != nil {
			panic(err)
		}
		c.emit("sh set "+hxList(list), "ok "+digList(list))
		// besides the fixed queries: near misses of the namespaces that ARE present — same id under the other
		// version, one byte changed at either end of the id
		qs := append([][]byte{}, queries...)
		for _, sh := range list {
			if !c.rng.Chance(1, 3) {
				continue
			}
			v := append([]byte(nil), sh[:29]...)
			switch c.rng.Intn(4) {
			case 0:
				v[0] ^= 0xff // the other namespace version, same id
			case 1:
				v[28] ^= 0x01
			case 2:
				v[19] ^= 0x80
			default:
				v[1+c.rng.Intn(28)] ^= byte(1 << uint(c.rng.Intn(8)))
			}
			qs = append(qs, v)
		}
		for _, q := range qs {
			qns, err := share.NewNamespaceFromBytes(q)
			if err != nil {
				continue
			}
			r := share.GetShareRangeForNamespace(shares, qns)
			c.emit("sh range "+hx(q), fmt.Sprintf("%d-%d", r.Start, r.End))
			c.oracle()
			first, last := -1, -1
			for k, s := range list {
				if bytes.Equal(s[:29], q) {
					if first < 0 {
						first = k
					}
					last = k
				}
			}
			want := share.Range{}
			if first >= 0 {
				want = share.Range{Start: first, End: last + 1}
			}
			if r != want {
				c.violate("C20", "", fmt.Sprintf("GetShareRangeForNamespace returned [%d,%d) for a namespace whose run is [%d,%d) (list shape %s)", r.Start, r.End, want.Start, want.End, shape), "", c.caseOps)
			}
			c.nontrivial(shape + hx(q))
		}
	}
}
