package main

import (
	"bytes"
	"encoding/base64"
	"encoding/json"
	"fmt"
	"math"
	"math/big"
	"strings"

	"github.com/celestiaorg/go-square/v2/share"
)

func init() {
	streams["NS"] = streamNS
	streamRules["NS"] = "all pairs of a structured boundary set of namespaces (reserved limits +-1, carry chains, 0x00/0xFF runs, versions 0/1/254/255) + random pairs: Compare and the five predicates; classification predicates; constructors on (version,id) incl. wrong lengths; AddInt with addends 0, +-1, +-255/256, +-2^k, MinInt64, MaxInt64; oracles against bytes.Compare / math/big; non-trivial = distinct op Added: JSON into receivers that already hold a value (refused documents leave them untouched; nothing writes through a copy of a package-level namespace)."
}

func rawNS(b []byte) share.Namespace {
	// any 29 bytes: built through the unexported constructor path via JSON-free API:
	// NewNamespaceFromBytes validates, so use the share accessor on a synthetic share instead
	sh := make([]byte, 512)
	copy(sh, b)
	s, err := share.NewShare(sh)
	if err != nil {
		panic(err)
	}
	return s.Namespace()
}

func (c *Ctx) boundaryNamespaces() [][]byte {
	var out [][]byte
	add := func(b []byte) { out = append(out, append([]byte(nil), b...)) }
	z := make([]byte, 29)
	f := bytes.Repeat([]byte{0xff}, 29)
	add(z)
	add(f)
	for _, ns := range []share.Namespace{share.TxNamespace, share.IntermediateStateRootsNamespace, share.PayForBlobNamespace,
		share.PrimaryReservedPaddingNamespace, share.MinSecondaryReservedNamespace, share.TailPaddingNamespace, share.ParitySharesNamespace} {
		b := ns.Bytes()
		add(b)
		for _, d := range []int{-2, -1, 1, 2} { // neighbours as big-endian integers
			x := new(big.Int).SetBytes(b)
			x.Add(x, big.NewInt(int64(d)))
			if x.Sign() >= 0 && x.BitLen() <= 232 {
				add(x.FillBytes(make([]byte, 29)))
			}
		}
	}
	// carry chains and runs
	for k := 1; k <= 28; k += 3 {
		b := append([]byte(nil), z...)
		for i := 29 - k; i < 29; i++ {
			b[i] = 0xff
		}
		add(b)
		b2 := append([]byte(nil), z...)
		b2[29-k-1+0] = 1
		add(b2)
	}
	for _, v := range []byte{1, 2, 127, 128, 254} { // other versions
		b := append([]byte(nil), z...)
		b[0] = v
		add(b)
		b[28] = 1
		add(b)
	}
	// version 0 with a non-zero byte inside the 18-byte prefix
	for _, i := range []int{1, 9, 18} {
		b := append([]byte(nil), z...)
		b[i] = 1
		add(b)
	}
	b := append([]byte(nil), z...)
	b[19] = 1
	add(b)
	for i := 0; i < 12; i++ {
		add(c.rng.Bytes(29))
		r := append(make([]byte, 19), c.rng.Bytes(10)...)
		add(r)
	}
	return out
}

func sign(x int) int {
	switch {
	case x < 0:
		return -1
	case x > 0:
		return 1
	}
	return 0
}

func streamNS(c *Ctx) {
	c.newCase()
	set := c.boundaryNamespaces()
	c.stats.Exhaustive = append(c.stats.Exhaustive, fmt.Sprintf("all %d x %d ordered pairs of the boundary set", len(set), len(set)))
	pair := func(a, b []byte) {
		na, nb := rawNS(a), rawNS(b)
		cmp := na.Compare(nb)
		out := fmt.Sprintf("%d eq=%s lt=%s le=%s gt=%s ge=%s", cmp, b2s(na.Equals(nb)), b2s(na.IsLessThan(nb)), b2s(na.IsLessOrEqualThan(nb)), b2s(na.IsGreaterThan(nb)), b2s(na.IsGreaterOrEqualThan(nb)))
		op := fmt.Sprintf("ns cmp %s %s", hx(a), hx(b))
		c.emit(op, out)
		c.nontrivial(op)
		c.oracle()
		want := bytes.Compare(a, b)
		if cmp != want || na.Equals(nb) != (want == 0) || na.IsLessThan(nb) != (want < 0) || na.IsLessOrEqualThan(nb) != (want <= 0) ||
			na.IsGreaterThan(nb) != (want > 0) || na.IsGreaterOrEqualThan(nb) != (want >= 0) || nb.Compare(na) != -want {
			c.violate("C18", "", fmt.Sprintf("comparison of %x and %x disagrees with byte-wise lexicographic order (%d): %s", a, b, want, out), "", []string{op})
		}
	}
	for _, a := range set {
		for _, b := range set {
			pair(a, b)
		}
	}
	for i := 0; i < c.n(3000, 200000); i++ {
		a := c.rng.Bytes(29)
		b := c.rng.Bytes(29)
		k := c.rng.Intn(30) // common prefix
		copy(b[:k], a[:k])
		pair(a, b)
	}
	maxPrim := new(big.Int).SetBytes(share.MaxPrimaryReservedNamespace.Bytes())
	minSec := new(big.Int).SetBytes(share.MinSecondaryReservedNamespace.Bytes())
	class := func(a []byte) {
		n := rawNS(a)
		out := fmt.Sprintf("tx=%s pfb=%s prp=%s tail=%s par=%s pr=%s sr=%s res=%s use=%s vfd=%s vfb=%s",
			b2s(n.IsTx()), b2s(n.IsPayForBlob()), b2s(n.IsPrimaryReservedPadding()), b2s(n.IsTailPadding()), b2s(n.IsParityShares()),
			b2s(n.IsPrimaryReserved()), b2s(n.IsSecondaryReserved()), b2s(n.IsReserved()), b2s(n.IsUsableNamespace()),
			b2s(n.ValidateForData() == nil), b2s(n.ValidateForBlob() == nil))
		op := "ns class " + hx(a)
		c.emit(op, out)
		c.nontrivial(op)
		c.oracle()
		x := new(big.Int).SetBytes(a)
		wantBlob := a[0] == 0 && x.Cmp(maxPrim) > 0 // version 0 strictly above the primary reserved range
		eq := func(ns share.Namespace) bool { return bytes.Equal(a, ns.Bytes()) }
		if (n.ValidateForBlob() == nil) != wantBlob || n.IsPrimaryReserved() != (x.Cmp(maxPrim) <= 0) || n.IsSecondaryReserved() != (x.Cmp(minSec) >= 0) ||
			n.IsReserved() != (x.Cmp(maxPrim) <= 0 || x.Cmp(minSec) >= 0) || n.IsTx() != eq(share.TxNamespace) || n.IsPayForBlob() != eq(share.PayForBlobNamespace) ||
			n.IsTailPadding() != eq(share.TailPaddingNamespace) || n.IsParityShares() != eq(share.ParitySharesNamespace) ||
			n.IsPrimaryReservedPadding() != eq(share.PrimaryReservedPaddingNamespace) || n.IsUsableNamespace() != !(eq(share.TailPaddingNamespace) || eq(share.ParitySharesNamespace)) {
			c.violate("C18", "", fmt.Sprintf("classification of namespace %x is wrong: %s (blob-valid expected %v)", a, out, wantBlob), "", []string{op})
		}
	}
	for _, a := range set {
		class(a)
	}
	for i := 0; i < c.n(500, 20000); i++ {
		class(c.rng.Bytes(29))
	}
	// constructors
	ctor := func(ver uint8, id []byte) {
		op := fmt.Sprintf("ns new %d %s", ver, hx(id))
		ns, err := share.NewNamespace(ver, id)
		out := "err"
		if err == nil {
			out = "ok " + hx(ns.Bytes())
		}
		c.emit(op, out)
		c.nontrivial(op)
		c.oracle()
		want := len(id) == 28 && (ver == 255 || (ver == 0 && bytes.Equal(id[:18], make([]byte, 18))))
		if (err == nil) != want || (err == nil && !bytes.Equal(ns.Bytes(), append([]byte{ver}, id...))) {
			c.violate("C18", "", fmt.Sprintf("NewNamespace(%d, %d-byte id) accepted=%v, well-formed=%v", ver, len(id), err == nil, want), "", []string{op})
		}
		full := append([]byte{ver}, id...)
		op2 := "ns frombytes " + hx(full)
		ns2, err2 := share.NewNamespaceFromBytes(full)
		out2 := "err"
		if err2 == nil {
			out2 = "ok " + hx(ns2.Bytes())
		}
		c.emit(op2, out2)
		if (err2 == nil) != want {
			c.violate("C18", "", fmt.Sprintf("NewNamespaceFromBytes(%x) accepted=%v, well-formed=%v", full, err2 == nil, want), "", []string{op2})
		}
	}
	for _, ver := range []uint8{0, 1, 2, 127, 128, 254, 255} {
		for _, l := range []int{0, 1, 10, 27, 28, 29, 40} {
			id := make([]byte, l)
			ctor(ver, id)
			if l > 0 {
				id2 := c.rng.Bytes(l)
				ctor(ver, id2)
				id3 := make([]byte, l)
				id3[l-1] = 7
				ctor(ver, id3)
				if l > 18 {
					id4 := make([]byte, l)
					id4[17] = 1
					ctor(ver, id4)
					id5 := make([]byte, l)
					id5[18] = 1
					ctor(ver, id5)
				}
			}
		}
	}
	for l := 0; l <= 12; l++ {
		sub := c.rng.Bytes(l)
		op := "ns newv0 " + hx(sub)
		ns, err := share.NewV0Namespace(sub)
		out := "err"
		if err == nil {
			out = "ok " + hx(ns.Bytes())
		}
		c.emit(op, out)
		c.oracle()
		if (err == nil) != (l <= 10) {
			c.violate("C18", "", fmt.Sprintf("NewV0Namespace with a %d-byte sub id accepted=%v", l, err == nil), "", []string{op})
		}
	}
	// AddInt
	addends := []int{0, 1, -1, 2, -2, 255, -255, 256, -256, 257, 65535, 65536, -65536, math.MaxInt64, math.MinInt64, math.MaxInt64 - 1, math.MinInt64 + 1, 1 << 32, -(1 << 32), 1 << 62, -(1 << 62)}
	two232 := new(big.Int).Lsh(big.NewInt(1), 232)
	addint := func(a []byte, v int) {
		n := rawNS(a)
		op := fmt.Sprintf("ns addint %s %d", hx(a), v)
		out := safe(func() string {
			r, err := n.AddInt(v)
			if err != nil {
				return "err"
			}
			return "ok " + hx(r.Bytes())
		})
		c.emit(op, out)
		c.nontrivial(op)
		c.oracle()
		x := new(big.Int).SetBytes(a)
		x.Add(x, big.NewInt(int64(v)))
		want := "err"
		if x.Sign() >= 0 && x.Cmp(two232) < 0 {
			want = "ok " + hx(x.FillBytes(make([]byte, 29)))
		}
		if out != want {
			c.violate("C18", "", fmt.Sprintf("AddInt(%x, %d) = %s, exact big-endian addition gives %s", a, v, trunc(out, 80), trunc(want, 80)), "", []string{op})
		} else if out != "err" && v != math.MinInt64 {
			r, _ := n.AddInt(v)
			back, err := r.AddInt(-v)
			if err != nil || !bytes.Equal(back.Bytes(), a) {
				c.violate("C18", "", fmt.Sprintf("AddInt(%x, %d) is not undone by adding %d", a, v, -v), "", []string{op})
			}
		}
	}
	for _, a := range set {
		for _, v := range addends {
			addint(a, v)
		}
	}
	for i := 0; i < c.n(3000, 100000); i++ {
		a := c.rng.Bytes(29)
		switch c.rng.Intn(4) {
		case 0:
			copy(a, make([]byte, 21)) // small value: underflow reachable
		case 1:
			copy(a, bytes.Repeat([]byte{0xff}, 21+c.rng.Intn(8))) // large value: overflow reachable
		case 2:
			for j := 29 - c.rng.Intn(9); j < 29; j++ { // trailing 0xff: carry chain
				a[j] = 0xff
			}
		}
		v := int(c.rng.U64())
		if c.rng.Bool() {
			v >>= uint(c.rng.Intn(63))
		}
		addint(a, v)
	}
	// JSON construction into receivers that already hold a value: a refused document leaves the receiver as it
	// was, and no document (base64 or array-of-numbers form) may write through a receiver copied from a
	// package-level namespace
	pkgBefore := hx(share.TxNamespace.Bytes()) + hx(share.PayForBlobNamespace.Bytes()) + hx(share.TailPaddingNamespace.Bytes()) + hx(share.ParitySharesNamespace.Bytes()) + hx(share.PrimaryReservedPaddingNamespace.Bytes())
	arr := func(b []byte) string {
		parts := make([]string, len(b))
		for i, x := range b {
			parts[i] = fmt.Sprint(x)
		}
		return "[" + strings.Join(parts, ",") + "]"
	}
	user := append(make([]byte, 19), bytes.Repeat([]byte{7}, 10)...)
	for _, base := range []share.Namespace{share.TxNamespace, share.PayForBlobNamespace, share.TailPaddingNamespace} {
		for _, doc := range []struct {
			js string
			ok bool
		}{
			{arr(user), true},
			{"\"" + base64.StdEncoding.EncodeToString(user) + "\"", true},
			{arr(append([]byte{3}, make([]byte, 28)...)), false},                                                // unsupported version
			{arr(make([]byte, 28)), false},                                                                      // wrong length
			{"\"" + base64.StdEncoding.EncodeToString(append([]byte{0, 1}, make([]byte, 27)...)) + "\"", false}, // version 0 with a non-zero prefix byte
		} {
			c.oracle()
			recv := base // a copy of the package-level value
			held := hx(recv.Bytes())
			err := json.Unmarshal([]byte(doc.js), &recv)
			if (err == nil) != doc.ok {
				c.violate("C18", "", fmt.Sprintf("Namespace.UnmarshalJSON accepted=%v, specified=%v", err == nil, doc.ok), doc.js, nil)
			}
			if err != nil && hx(recv.Bytes()) != held {
				c.violate("C18", "", "a refused JSON document left the receiving namespace modified (it no longer holds the value it had)", doc.js, nil)
			}
			if err == nil && !bytes.Equal(recv.Bytes(), user) {
				c.violate("C18", "", "an accepted JSON document did not decode to the encoded namespace", doc.js, nil)
			}
			now := hx(share.TxNamespace.Bytes()) + hx(share.PayForBlobNamespace.Bytes()) + hx(share.TailPaddingNamespace.Bytes()) + hx(share.ParitySharesNamespace.Bytes()) + hx(share.PrimaryReservedPaddingNamespace.Bytes())
			if now != pkgBefore {
				c.violate("C18", "", "decoding JSON into a copy of a package-level namespace changed the package-level namespace itself", doc.js, nil)
				return
			}
		}
	}
}
