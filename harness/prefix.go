//go:build prefix

package main

import "github.com/celestiaorg/go-square/v2/share"

// built with -tags prefix against the tree *before* the fix: commits (no signer-aware function)
func sparseSharesNeededWithSigner(n uint32, signer bool) int { return share.SparseSharesNeeded(n) }
