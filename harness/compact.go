package main

import (
	"bytes"
	"crypto/sha256"
	"encoding/binary"
	"fmt"
	"strings"

	"github.com/celestiaorg/go-square/v2/share"
)

func init() {
	streams["COUNTER"] = streamCounter
	streamRules["COUNTER"] = "exhaustive single transitions of CompactShareCounter from all 952 abstract states (total bytes 0..951) x data lengths 0..1500 (add, then revert), block digests; plus random add/revert histories; oracle: counter size/increment/remainder == a CompactShareSplitter fed the effective transactions; non-trivial = distinct (state,length-block) or history"
	streams["COMPACT"] = streamCompact
	streamRules["COMPACT"] = "tx lists with lengths drawn around the 474/478 fills and 1/2/3-byte varint widths, both compact namespaces; real writer vs model vs independent Spec.compactSeq; ParseTxs on the whole sequence and on ALL sub-ranges; splitter share ranges; oracles for C09/C11/C12; non-trivial = distinct length list with >= 2 shares Added: directed in-share unit-start offsets (34..39, 255..258, 509..511), structured payloads, view-backed namespaces, parsing each recorded range, idempotent ShareRanges."
	streams["CHIST"] = streamCHist
	streamRules["CHIST"] = "CompactShareSplitter histories over {write, export, count}; oracle: final export == export of a fresh splitter fed only the writes; non-trivial = distinct history with an export between two writes Added: per-transaction ranges and the C09 round trip after every history, two splitters sharing one namespace value, nil vs empty inputs."
}

func counterGoto(T int) *share.CompactShareCounter {
	c := share.NewCompactShareCounter()
	if T == 0 {
		return c
	}
	L := T - 1
	for L+uvarintLen(L) > T {
		L--
	}
	c.Add(L)
	for i := 0; i < T-(L+uvarintLen(L)); i++ {
		c.Add(0)
	}
	return c
}

func uvarintLen(n int) int {
	var buf [binary.MaxVarintLen64]byte
	return binary.PutUvarint(buf[:], uint64(n))
}

// posOf: (full shares, bytes in the pending share) after T stream bytes.
func posOf(T int) (int, int) {
	if T < 474 {
		return 0, T
	}
	return 1 + (T-474)/478, (T - 474) % 478
}

func sizeOf(T int) int {
	s, r := posOf(T)
	if r > 0 {
		return s + 1
	}
	return s
}

func streamCounter(c *Ctx) {
	c.newCase()
	maxLen := 1501
	step := 1
	if !c.thorough {
		step = 1 // all 952 states also in quick: 1.4M transitions take ~2 s
	}
	for T := 0; T < 952; T += step {
		op := fmt.Sprintf("cnt sweep %d 0 %d", T, maxLen)
		out := safe(func() string {
			c0 := counterGoto(T)
			h := uint64(14695981039346656037)
			for n := 0; n < maxLen; n++ {
				cc := counterGoto(T)
				d := cc.Add(n)
				h = mixU(h, uint64(int64(d)))
				h = mixU(h, uint64(cc.Size()))
				h = mixU(h, uint64(cc.Remainder()))
				// oracle: closed form
				c.oracle()
				wantS, wantR := sizeOf(T+n+uvarintLen(n)), 0
				_, wantR = posOf(T + n + uvarintLen(n))
				if cc.Size() != wantS || cc.Remainder() != wantR || d != wantS-sizeOf(T) {
					c.violate("C13", "", fmt.Sprintf("counter at %d bytes + Add(%d): size=%d rem=%d diff=%d, expected size=%d rem=%d diff=%d", T, n, cc.Size(), cc.Remainder(), d, wantS, wantR, wantS-sizeOf(T)), "",
						[]string{fmt.Sprintf("cnt step %d %d", T, n)})
				}
				cc.Revert()
				h = mixU(h, uint64(cc.Size()))
				h = mixU(h, uint64(cc.Remainder()))
				if cc.Size() != c0.Size() || cc.Remainder() != c0.Remainder() {
					c.violate("C13", "", fmt.Sprintf("counter at %d bytes: Add(%d) then Revert does not restore the state", T, n), "",
						[]string{fmt.Sprintf("cnt step %d %d", T, n)})
				}
			}
			return fmt.Sprintf("from=%d/%d %016x", c0.Size(), c0.Remainder(), h)
		})
		c.emit(op, out)
		c.nontrivial(op)
	}
	c.stats.Exhaustive = append(c.stats.Exhaustive, "all 952 abstract counter states x data lengths 0..1500: Add then Revert")
	// large lengths: div/mod classes beyond
	for i := 0; i < c.n(2000, 50000); i++ {
		T := c.rng.Intn(952)
		n := c.rng.Pick([]int{1500, 16383, 16384, 16385, 100000, 2097151, 2097152, 1 << 24}) + c.rng.Intn(1000)
		if i%3 == 0 {
			// every magnitude up to 2^31 (a counter only sees lengths, so a 1 GiB unit costs nothing), also just
			// around the powers of two and on multiples of the share capacity (seeded round 9: a fast path for
			// units above 2^27 that forgot the revert snapshot)
			n = int(c.logU(31))
			switch c.rng.Intn(4) {
			case 0:
				n = 478*int(c.logU(21)) - uvarintLen(n) + c.rng.Intn(3) - 1
			case 1:
				n = 1<<uint(c.rng.Range(10, 30)) + c.rng.Intn(5) - 2
			}
			if n < 0 {
				n = 0
			}
		}
		op := fmt.Sprintf("cnt step %d %d", T, n)
		cc := counterGoto(T)
		s0, r0 := cc.Size(), cc.Remainder()
		d := cc.Add(n)
		s1, r1 := cc.Size(), cc.Remainder()
		cc.Revert()
		c.emit(op, fmt.Sprintf("from=%d/%d diff=%d size=%d rem=%d rsize=%d rrem=%d", s0, r0, d, s1, r1, cc.Size(), cc.Remainder()))
		c.oracle()
		if s1 != sizeOf(T+n+uvarintLen(n)) {
			c.violate("C13", "", fmt.Sprintf("counter at %d bytes + Add(%d): size %d, expected %d", T, n, s1, sizeOf(T+n+uvarintLen(n))), "", []string{op})
		}
		if cc.Size() != s0 || cc.Remainder() != r0 || d != s1-s0 {
			c.violate("C13", "", fmt.Sprintf("counter at %d bytes: Add(%d) reports +%d (size %d -> %d), and Revert leaves size=%d rem=%d instead of size=%d rem=%d", T, n, d, s0, s1, cc.Size(), cc.Remainder(), s0, r0), "", []string{op})
		}
	}
	// random add / revert histories, compared with a real splitter fed the effective txs
	nh := c.n(1500, 30000)
	for i := 0; i < nh; i++ {
		c.newCase()
		c.emit("cnt new", "ok")
		cnt := share.NewCompactShareCounter()
		var eff []int
		lastWasAdd := false
		k := c.rng.Range(1, 14)
		desc := ""
		for j := 0; j < k; j++ {
			if c.rng.Chance(1, 4) {
				cnt.Revert()
				if lastWasAdd {
					eff = eff[:len(eff)-1]
				}
				lastWasAdd = false
				c.emit("cnt revert", fmt.Sprintf("size=%d rem=%d", cnt.Size(), cnt.Remainder()))
				desc += "r"
				c.dist("hist:revert")
			} else {
				n := c.compactLen()
				if c.rng.Chance(1, 10) {
					n = 0
				}
				before := cnt.Size()
				d := cnt.Add(n)
				eff = append(eff, n)
				lastWasAdd = true
				c.emit(fmt.Sprintf("cnt add %d", n), fmt.Sprintf("diff=%d size=%d rem=%d", d, cnt.Size(), cnt.Remainder()))
				desc += fmt.Sprintf("a%d", n)
				c.dist("hist:add")
				if d != cnt.Size()-before {
					c.violate("C13", "", "Add returned an increment different from the change of Size()", desc, c.caseOps)
				}
			}
			// oracle against the real splitter
			c.oracle()
			css := share.NewCompactShareSplitter(share.TxNamespace, 0)
			T := 0
			for _, n := range eff {
				css.WriteTx(make([]byte, n))
				T += n + uvarintLen(n)
			}
			_, wantR := posOf(T)
			if css.Count() != cnt.Size() || cnt.Remainder() != wantR {
				c.violate("C13", "", fmt.Sprintf("after history %s: counter size=%d rem=%d, splitter count=%d, remainder implied by %d bytes = %d", desc, cnt.Size(), cnt.Remainder(), css.Count(), T, wantR), desc, c.caseOps)
			}
		}
		c.nontrivial(desc)
	}
}

func txKey(t []byte) string { h := sha256.Sum256(t); return string(h[:]) }

func parseOut(txs [][]byte, err error) string {
	if err != nil {
		return "err"
	}
	lens := make([]string, len(txs))
	for i, t := range txs {
		lens[i] = fmt.Sprint(len(t))
	}
	return "ok " + digList(txs) + " [" + strings.Join(lens, ",") + "]"
}

func safeParseTxs(sh []share.Share) (out string, txs [][]byte, panicked bool) {
	defer func() {
		if r := recover(); r != nil {
			out, panicked = "panic", true
		}
	}()
	t, err := share.ParseTxs(sh)
	return parseOut(t, err), t, false
}

// shareOf: index of the compact share holding stream byte off.
func shareOf(off int) int {
	if off < 474 {
		return 0
	}
	return 1 + (off-474)/478
}

func compactOff(k int) int {
	if k == 0 {
		return 0
	}
	return 474 + (k-1)*478
}

// refCompactShares: the specified compact share sequence of a list of transactions, written from the share
// specification independently of the library: the length-prefixed transactions concatenated, cut into 474
// bytes for the first share and 478 for every other; every share = namespace | info byte (version 0, start
// flag on the first share only) | big-endian sequence length (first share only) | 4 reserved bytes holding the
// in-share offset of the first unit that STARTS in the share (0 if none) | payload | zero fill
func refCompactShares(ns []byte, txs [][]byte) [][]byte {
	var stream []byte
	var unitStarts []int
	for _, t := range txs {
		unitStarts = append(unitStarts, len(stream))
		var pre [10]byte
		n := 0
		for v := uint64(len(t)); ; {
			if v < 0x80 {
				pre[n] = byte(v)
				n++
				break
			}
			pre[n] = byte(v) | 0x80
			n++
			v >>= 7
		}
		stream = append(stream, pre[:n]...)
		stream = append(stream, t...)
	}
	T := len(stream)
	if T == 0 {
		return nil
	}
	var out [][]byte
	ui := 0
	for k, off := 0, 0; off < T; k++ {
		capac, hdr := 478, 34
		if k == 0 {
			capac, hdr = 474, 38
		}
		end := off + capac
		if end > T {
			end = T
		}
		sh := make([]byte, 0, 512)
		sh = append(sh, ns...)
		if k == 0 {
			sh = append(sh, 0x01, byte(T>>24), byte(T>>16), byte(T>>8), byte(T))
		} else {
			sh = append(sh, 0x00)
		}
		for ui < len(unitStarts) && unitStarts[ui] < off {
			ui++
		}
		res := 0
		if ui < len(unitStarts) && unitStarts[ui] < end {
			res = hdr + unitStarts[ui] - off
		}
		sh = append(sh, byte(res>>24), byte(res>>16), byte(res>>8), byte(res))
		sh = append(sh, stream[off:end]...)
		for len(sh) < 512 {
			sh = append(sh, 0)
		}
		out = append(out, sh)
		off = end
	}
	return out
}

func (c *Ctx) compactCase(ns share.Namespace, txs [][]byte, allRanges bool) {
	defer c.recoverCase()
	c.newCase()
	c.emit(fmt.Sprintf("css new %s 0", hx(ns.Bytes())), "ok")
	// representation variant: the namespace handed to the splitter is a 29-byte VIEW with spare capacity
	// behind it (what Share.Namespace() returns); the bytes behind it must stay untouched
	var nsBuf, nsBuf0 []byte
	if c.rng.Chance(1, 3) {
		nsBuf = append(append([]byte(nil), ns.Bytes()...), bytes.Repeat([]byte{0x5a}, c.rng.Range(483, 1200))...)
		nsBuf0 = append([]byte(nil), nsBuf...)
		if v, err := share.NewNamespaceFromBytes(nsBuf[:29]); err == nil {
			ns = v
		}
	}
	defer func() {
		if nsBuf != nil && !bytes.Equal(nsBuf, nsBuf0) {
			c.violate("C10", "", "the compact share splitter wrote into the memory behind the namespace it was given", "", c.caseOps)
		}
	}()
	css := share.NewCompactShareSplitter(ns, 0)
	starts := make([]int, len(txs))
	ends := make([]int, len(txs))
	T := 0
	for i, t := range txs {
		starts[i] = T
		T += uvarintLen(len(t)) + len(t)
		ends[i] = T
		err := css.WriteTx(t)
		c.emit("css write "+hx(t), okErr(err))
	}
	c.emit("css count", fmt.Sprint(css.Count()))
	shares, err := css.Export()
	if err != nil {
		c.emit("css export", "err")
		c.violate("C09", "", "Export returned an error", err.Error(), c.caseOps)
		return
	}
	raw := sharesToBytes(shares)
	seqLen := uint32(0)
	if len(shares) > 0 {
		seqLen = shares[0].SequenceLen()
	}
	c.emit("css export", fmt.Sprintf("ok %s seqlen=%d", digList(raw), seqLen))
	// the same specification written in Go (also available where the model is not consulted)
	c.oracle()
	if ref := refCompactShares(ns.Bytes(), txs); digList(ref) != digList(raw) {
		first := 0
		for first < len(ref) && first < len(raw) && bytes.Equal(ref[first], raw[first]) {
			first++
		}
		c.violate("C10", "", fmt.Sprintf("the %d exported compact shares are not the specified encoding of the %d transactions written (%d shares specified; first difference in share %d)", len(raw), len(txs), len(ref), first), "", c.caseOps)
	}
	// independent spec of the format (C10): the driver answers with Spec.compactSeq
	c.emit(fmt.Sprintf("spec compact %s %s", hx(ns.Bytes()), hxList(txs)), "ok "+digList(raw))
	c.emit("css export", fmt.Sprintf("ok %s seqlen=%d", digList(raw), seqLen)) // restores register R
	n := len(shares)
	out, parsed, _ := safeParseTxs(shares)
	c.emit(fmt.Sprintf("sh parsetxs 0 %d", n), out)
	nonEmpty := true
	for _, t := range txs {
		if len(t) == 0 {
			nonEmpty = false
		}
	}
	if nonEmpty {
		// C09
		c.oracle()
		if !eqTxs(parsed, txs) {
			c.violate("C09", "", fmt.Sprintf("ParseTxs(Export()) returned %d txs, %d were written (or contents differ)", len(parsed), len(txs)), out, c.caseOps)
		}
		// the same shares as they arrive from storage or the network: windows of one contiguous buffer,
		// parsed twice (the second parse sees whatever the first one left behind)
		if n > 0 {
			flat := bytes.Join(raw, nil)
			wins := make([][]byte, n)
			for k := range wins {
				wins[k] = flat[k*512 : (k+1)*512]
			}
			if wsh, werr := share.FromBytes(wins); werr == nil {
				for pass := 1; pass <= 2; pass++ {
					wo, wp, _ := safeParseTxs(wsh)
					c.oracle()
					if !eqTxs(wp, txs) {
						c.violate("C09", "", fmt.Sprintf("ParseTxs on the exported shares laid out in one contiguous buffer (pass %d) returned %d txs, %d were written (or contents differ)", pass, len(wp), len(txs)), wo, c.caseOps)
						break
					}
				}
			}
		}
		if int(seqLen) != T {
			c.violate("C09", "", fmt.Sprintf("sequence length field %d != %d length-prefixed bytes written", seqLen, T), "", c.caseOps)
		}
		if n != share.CompactSharesNeeded(uint32(T)) || (n > 0 && share.AvailableBytesFromCompactShares(n-1) >= T) || share.AvailableBytesFromCompactShares(n) < T {
			c.violate("C09", "", fmt.Sprintf("%d shares exported for %d bytes is not the minimum", n, T), "", c.caseOps)
		}
		// C13: prediction vs encoder
		if n != sizeOf(T) {
			c.violate("C13", "", fmt.Sprintf("CompactSharesNeeded/closed form predicts %d shares, the splitter produced %d", sizeOf(T), n), "", c.caseOps)
		}
	}
	// C12: splitter ranges
	rs := css.ShareRanges(0)
	var rstr []string
	for k, v := range rs {
		rstr = append(rstr, fmt.Sprintf("%s:%d-%d", dig(k[:]), v.Start, v.End))
	}
	// the model keys ranges by tx bytes, Go by sha256(tx): print the digest of sha256(tx)
	_ = rstr
	var mstr []string
	seenTx := map[string]bool{}
	for i := len(txs) - 1; i >= 0; i-- { // last writer wins
		k := txKey(txs[i])
		if seenTx[k] {
			continue
		}
		seenTx[k] = true
		h := sha256.Sum256(txs[i])
		v := rs[h]
		mstr = append(mstr, fmt.Sprintf("%s:%d-%d", dig(txs[i]), v.Start, v.End))
		if nonEmpty && v.Start < v.End && v.End <= len(shares) {
			// C12: parsing just the shares of the recorded range yields a list containing the transaction
			c.oracle()
			got, perr := share.ParseTxs(shares[v.Start:v.End])
			found := false
			for _, g := range got {
				if bytes.Equal(g, txs[i]) {
					found = true
				}
			}
			if perr != nil || !found {
				c.violate("C12", "", fmt.Sprintf("parsing the recorded range [%d,%d) of tx %d (%d bytes) does not yield that transaction", v.Start, v.End, i, len(txs[i])), "", c.caseOps)
			}
		}
		if nonEmpty {
			c.oracle()
			wantS, wantE := shareOf(starts[i]), shareOf(ends[i]-1)+1
			if v.Start != wantS || v.End != wantE {
				c.violate("C12", "", fmt.Sprintf("splitter range of tx %d is [%d,%d), the shares holding its bytes are [%d,%d)", i, v.Start, v.End, wantS, wantE), "", c.caseOps)
			}
		}
	}
	c.emit("css ranges 0", strings.Join(sortedCopy(mstr), " "))
	// the accessor is idempotent and the offset is only added to what it returns: asking twice with a non-zero
	// offset, and asking with offset 0 afterwards, gives consistent answers
	{
		c.oracle()
		off := c.rng.Range(1, 9)
		r1 := css.ShareRanges(off)
		r2 := css.ShareRanges(off)
		r0 := css.ShareRanges(0)
		okR := len(r1) == len(rs) && len(r2) == len(rs) && len(r0) == len(rs)
		for k, v := range rs {
			if r1[k].Start != v.Start+off || r1[k].End != v.End+off || r2[k] != r1[k] || r0[k] != v {
				okR = false
			}
		}
		if !okR {
			c.violate("C12", "", fmt.Sprintf("ShareRanges(%d) asked twice, then ShareRanges(0): the answers are not the recorded ranges shifted by the offset", off), "", c.caseOps)
		}
	}
	if !allRanges || n == 0 {
		return
	}
	// C11: every sub-range
	for lo := 0; lo < n; lo++ {
		for hi := lo + 1; hi <= n; hi++ {
			if lo == 0 && hi == n {
				continue
			}
			if n > 8 && !(hi-lo <= 2 || lo == 0 || hi == n) && !c.rng.Chance(1, 6) {
				continue
			}
			o, got, _ := safeParseTxs(shares[lo:hi])
			c.emit(fmt.Sprintf("sh parsetxs %d %d", lo, hi), o)
			if !nonEmpty {
				continue
			}
			c.oracle()
			bLo, bHi := compactOff(lo), compactOff(hi)
			if bHi > T {
				bHi = T
			}
			var want [][]byte
			for i := range txs {
				if starts[i] >= bLo && ends[i] <= bHi {
					want = append(want, txs[i])
				}
			}
			if !eqTxs(got, want) {
				what := fmt.Sprintf("ParseTxs(shares[%d:%d]) returned %d txs; %d txs begin and are complete inside the range", lo, hi, len(got), len(want))
				for _, g := range got {
					found := false
					for _, t := range txs {
						if bytes.Equal(g, t) {
							found = true
						}
					}
					if !found {
						what += fmt.Sprintf("; returned a %d-byte transaction that was never written", len(g))
						break
					}
				}
				c.violate("C11", "", what, o, append(append([]string(nil), c.caseOps[:len(txs)+3]...), fmt.Sprintf("sh parsetxs %d %d", lo, hi)))
			}
		}
	}
}

func okErr(err error) string {
	if err != nil {
		return "err"
	}
	return "ok"
}

func eqTxs(a, b [][]byte) bool {
	if len(a) != len(b) {
		return false
	}
	for i := range a {
		if !bytes.Equal(a[i], b[i]) {
			return false
		}
	}
	return true
}

func streamCompact(c *Ctx) {
	nss := []share.Namespace{share.TxNamespace, share.PayForBlobNamespace}
	// transactions around the 3- and 4-byte length prefix boundaries (2^14, 2^21) and 2^17, 2^20: Go-side
	// reference for all, the model as well up to 2^17 (quick) / all (thorough)
	for i, L := range []int{16383, 16384, 131071, 131072, 131073, 1 << 20, 2097151, 2097152} {
		c.goOnly = !c.thorough && L > 131073
		c.compactCase(nss[i%2], [][]byte{c.rng.Bytes(10), c.rng.Bytes(L), c.rng.Bytes(20)}, false)
		c.goOnly = false
		c.dist("huge-tx")
	}
	// every single-tx length 1..3000 (round trip only)
	maxSingle := 3000
	for n := 1; n <= maxSingle; n++ {
		if !c.thorough && n > 1000 && n%5 != 0 {
			continue
		}
		c.compactCase(nss[n%2], [][]byte{c.rng.Bytes(n)}, n%50 == 0)
		c.dist("single-tx")
	}
	c.stats.Exhaustive = append(c.stats.Exhaustive, "every single-transaction length 1..1000 (quick; 1..3000 thorough)")
	// multi-byte length prefix straddling a share boundary at every split
	for _, big := range []int{200, 16385, 20000} {
		for pre := 466; pre <= 474; pre++ {
			first := pre - uvarintLen(pre) // unit of total size ≈ pre
			c.compactCase(nss[pre%2], [][]byte{c.rng.Bytes(first), c.rng.Bytes(big), c.rng.Bytes(7)}, true)
			c.dist("straddling-prefix")
		}
	}
	// the first unit of a share starting at EVERY in-share byte offset that matters for the reserved bytes:
	// 34..38 (right after the header), 255..257 (0x00ff / 0x0100 / 0x0101: low byte zero), 509..511 (the last
	// bytes), in the first and in continuation shares, followed by further units in the same share
	for _, inShare := range []int{34, 35, 38, 39, 127, 128, 255, 256, 257, 258, 300, 509, 510, 511} {
		for _, shareIdx := range []int{0, 1, 2} {
			hdr := 34
			off := 474 + 478*(shareIdx-1)
			if shareIdx == 0 {
				hdr, off = 38, 0
			}
			if inShare < hdr {
				continue
			}
			start := off + inShare - hdr // stream offset at which the unit must start
			// one unit that begins in an earlier share (or at 0) and ends exactly at `start`
			var pre [][]byte
			if start > 0 {
				L := start - 1
				for L > 0 && L+uvarintLen(L) > start {
					L--
				}
				if L+uvarintLen(L) != start {
					continue
				}
				pre = append(pre, c.payload(L))
			}
			for _, tail := range [][]int{{10, 10}, {600, 3}, {3}, {1000}} {
				txs := append([][]byte(nil), pre...)
				for _, n := range tail {
					txs = append(txs, c.payload(n))
				}
				c.compactCase(nss[(inShare+shareIdx)%2], txs, true)
				c.dist("directed-unit-start")
			}
		}
	}
	c.stats.Exhaustive = append(c.stats.Exhaustive, "first unit of a share at in-share offsets 34..39, 127/128, 255..258, 300, 509..511 x share 0/1/2 x 4 tails")
	nl := c.n(500, 5000)
	for i := 0; i < nl; i++ {
		k := c.rng.Range(1, 9)
		txs := make([][]byte, k)
		desc := ""
		for j := range txs {
			n := c.compactLen()
			if c.thorough && c.rng.Chance(1, 30) {
				n = c.rng.Range(3000, 40000)
			}
			txs[j] = c.payload(n)
			desc += fmt.Sprint(n, ",")
		}
		if c.rng.Chance(1, 12) && k > 1 { // duplicate tx bytes (range map: last writer wins)
			txs[k-1] = txs[0]
		}
		if c.rng.Chance(1, 25) { // an empty tx: outside the properties' quantifier, model tie only
			txs[c.rng.Intn(k)] = nil
			c.dist("has-empty-tx")
		}
		c.compactCase(nss[i%2], txs, true)
		c.dist(fmt.Sprintf("txs=%d", k))
		T := 0
		for _, t := range txs {
			T += len(t) + uvarintLen(len(t))
		}
		if sizeOf(T) >= 2 {
			c.nontrivial(desc)
		}
		if T == 474 || (T > 474 && (T-474)%478 == 0) {
			c.dist("exact-fill")
		}
	}
}

// nilVsEmpty: a nil slice and an empty non-nil slice are the same input
func (c *Ctx) nilVsEmpty() {
	c.oracle()
	type pair struct {
		name string
		a, b string
	}
	txsOut := func(t [][]byte, err error) string { return fmt.Sprint(len(t), err == nil, t == nil || len(t) == 0) }
	var ps []pair
	{
		a, ea := share.ParseTxs(nil)
		b, eb := share.ParseTxs([]share.Share{})
		ps = append(ps, pair{"ParseTxs", txsOut(a, ea), txsOut(b, eb)})
	}
	{
		a, ea := share.ParseBlobs(nil)
		b, eb := share.ParseBlobs([]share.Share{})
		ps = append(ps, pair{"ParseBlobs", fmt.Sprint(len(a), ea == nil), fmt.Sprint(len(b), eb == nil)})
	}
	{
		a, ea := share.ParseShares(nil, true)
		b, eb := share.ParseShares([]share.Share{}, true)
		ps = append(ps, pair{"ParseShares", fmt.Sprint(len(a), ea == nil), fmt.Sprint(len(b), eb == nil)})
	}
	{
		a := share.GetShareRangeForNamespace(nil, share.TxNamespace)
		b := share.GetShareRangeForNamespace([]share.Share{}, share.TxNamespace)
		ps = append(ps, pair{"GetShareRangeForNamespace", fmt.Sprint(a), fmt.Sprint(b)})
	}
	{
		w1 := share.NewCompactShareSplitter(share.TxNamespace, 0)
		_ = w1.WriteTx(nil)
		s1, e1 := w1.Export()
		w2 := share.NewCompactShareSplitter(share.TxNamespace, 0)
		_ = w2.WriteTx([]byte{})
		s2, e2 := w2.Export()
		ps = append(ps, pair{"WriteTx(nil) / WriteTx(empty)", fmt.Sprint(e1 == nil, digList(sharesToBytes(s1))), fmt.Sprint(e2 == nil, digList(sharesToBytes(s2)))})
	}
	for _, p := range ps {
		if p.a != p.b {
			c.violate("C16", "", p.name+" treats a nil slice and an empty slice differently: "+p.a+" vs "+p.b, "", nil)
			c.violate("C09", "", p.name+" treats a nil slice and an empty slice differently: "+p.a+" vs "+p.b, "", nil)
		}
	}
}

func streamCHist(c *Ctx) {
	c.nilVsEmpty()
	// two splitters created from the SAME namespace value, written alternately: each exports what a lone
	// splitter fed its own writes exports
	for rep := 0; rep < c.n(40, 400); rep++ {
		c.oracle()
		nsb := append([]byte(nil), share.TxNamespace.Bytes()...)
		if rep%2 == 1 {
			nsb = append([]byte(nil), share.PayForBlobNamespace.Bytes()...)
		}
		nsv, _ := share.NewNamespaceFromBytes(nsb)
		a, b := share.NewCompactShareSplitter(nsv, 0), share.NewCompactShareSplitter(nsv, 0)
		var wa, wb [][]byte
		for k := c.rng.Range(2, 8); k > 0; k-- {
			t := c.payload(c.compactLen())
			if len(t) == 0 {
				continue
			}
			if c.rng.Bool() {
				a.WriteTx(t)
				wa = append(wa, t)
			} else {
				b.WriteTx(t)
				wb = append(wb, t)
			}
			if c.rng.Chance(1, 4) {
				a.Export()
			}
		}
		sa, _ := a.Export()
		sb, _ := b.Export()
		for i, pr := range []struct {
			got []share.Share
			w   [][]byte
		}{{sa, wa}, {sb, wb}} {
			ref := share.NewCompactShareSplitter(share.TxNamespace, 0)
			if rep%2 == 1 {
				ref = share.NewCompactShareSplitter(share.PayForBlobNamespace, 0)
			}
			for _, t := range pr.w {
				ref.WriteTx(t)
			}
			want, _ := ref.Export()
			if digList(sharesToBytes(pr.got)) != digList(sharesToBytes(want)) {
				c.violate("C14", "", fmt.Sprintf("splitter %d of two splitters created from the same namespace value exports different shares than a lone splitter fed the same %d writes", i, len(pr.w)), "", nil)
				c.violate("C09", "", fmt.Sprintf("splitter %d of two splitters created from the same namespace value does not export the specified sequence of its %d writes", i, len(pr.w)), "", nil)
			}
		}
		if !bytes.Equal(nsv.Bytes(), nsb) {
			c.violate("C17", "", "a compact share splitter modified the namespace value it was created from", "", nil)
		}
	}
	nh := c.n(2500, 20000)
	for i := 0; i < nh; i++ {
		c.newCase()
		ns := share.TxNamespace
		if i%2 == 1 {
			ns = share.PayForBlobNamespace
		}
		c.emit(fmt.Sprintf("css new %s 0", hx(ns.Bytes())), "ok")
		css := share.NewCompactShareSplitter(ns, 0)
		hcnt := share.NewCompactShareCounter()
		var writes [][]byte
		k := c.rng.Range(2, 10)
		desc := ""
		exportBetween := false
		sawExport := false
		for j := 0; j < k; j++ {
			switch r := c.rng.Intn(10); {
			case r < 5:
				n := c.compactLen()
				if c.rng.Chance(1, 3) {
					n = c.rng.Pick([]int{1, 100, 471, 472, 473, 477, 478, 949, 950, 951})
				}
				t := c.rng.Bytes(n)
				writes = append(writes, t)
				before := css.Count()
				// every other history hands the splitter a buffer the caller reuses at once: ranges and
				// shares must not depend on the caller's slice after WriteTx has returned (seeded change C12-O)
				arg := t
				if i%2 == 0 {
					arg = append(make([]byte, 0, n+8), t...)
				}
				werr := css.WriteTx(arg)
				if i%2 == 0 {
					for x := range arg {
						arg[x] ^= 0xA5
					}
				}
				c.emit("css write "+hx(t), okErr(werr))
				desc += fmt.Sprintf("w%d ", n)
				// C13 after any history: a counter fed the same writes reports the splitter's share count and
				// increment, whatever exports and counts happened in between
				c.oracle()
				d := hcnt.Add(n)
				if after := css.Count(); after != hcnt.Size() || after-before != d {
					c.violate("C13", "", fmt.Sprintf("after the splitter history [%s] the splitter counts %d shares (+%d for the last write); a counter fed the same writes reports %d (+%d)", strings.TrimSpace(desc), after, after-before, hcnt.Size(), d), "", c.caseOps)
				}
				if sawExport {
					exportBetween = true
				}
			case r < 8:
				sh, err := css.Export()
				if err != nil {
					c.emit("css export", "err")
				} else {
					sl := uint32(0)
					if len(sh) > 0 {
						sl = sh[0].SequenceLen()
					}
					c.emit("css export", fmt.Sprintf("ok %s seqlen=%d", digList(sharesToBytes(sh)), sl))
				}
				desc += "e "
				sawExport = len(writes) > 0
			default:
				c.emit("css count", fmt.Sprint(css.Count()))
				desc += "c "
			}
		}
		sh, err := css.Export()
		sl := uint32(0)
		if len(sh) > 0 {
			sl = sh[0].SequenceLen()
		}
		c.emit("css export", okOr(err, fmt.Sprintf("ok %s seqlen=%d", digList(sharesToBytes(sh)), sl)))
		if err == nil {
			// C10 after any history: the exported shares are byte-identical to the specified encoding of
			// the writes (the driver answers with the independent Spec.compactSeq)
			c.oracle()
			if ref := refCompactShares(ns.Bytes(), writes); digList(ref) != digList(sharesToBytes(sh)) {
				c.violate("C10", "", fmt.Sprintf("after the splitter history [%s] the %d exported shares are not the specified encoding of the %d writes", strings.TrimSpace(desc), len(sh), len(writes)), "", c.caseOps)
			}
			c.emit(fmt.Sprintf("spec compact %s %s", hx(ns.Bytes()), hxList(writes)), "ok "+digList(sharesToBytes(sh)))
			c.emit("css export", fmt.Sprintf("ok %s seqlen=%d", digList(sharesToBytes(sh)), sl)) // restores register R
		}
		// C12: the per-transaction ranges after ANY history (exports and counts between writes) are the
		// shares holding the transaction's length-prefixed bytes
		{
			rs := css.ShareRanges(0)
			var mstr []string
			seenTx := map[string]bool{}
			off := 0
			starts := make([]int, len(writes))
			ends := make([]int, len(writes))
			for wi, t := range writes {
				starts[wi] = off
				off += uvarintLen(len(t)) + len(t)
				ends[wi] = off
			}
			for wi := len(writes) - 1; wi >= 0; wi-- { // last writer wins
				k := txKey(writes[wi])
				if seenTx[k] {
					continue
				}
				seenTx[k] = true
				h := sha256.Sum256(writes[wi])
				v := rs[h]
				mstr = append(mstr, fmt.Sprintf("%s:%d-%d", dig(writes[wi]), v.Start, v.End))
				c.oracle()
				wantS, wantE := shareOf(starts[wi]), shareOf(ends[wi]-1)+1
				if v.Start != wantS || v.End != wantE {
					c.violate("C12", "", fmt.Sprintf("after the splitter history [%s] the range of write %d is [%d,%d), the shares holding its bytes are [%d,%d)", strings.TrimSpace(desc), wi, v.Start, v.End, wantS, wantE), "", c.caseOps)
				}
			}
			c.emit("css ranges 0", strings.Join(sortedCopy(mstr), " "))
		}
		// C09 after any history: the exported sequence parses back to exactly the writes, declares the
		// number of length-prefixed bytes and has the minimal number of shares
		if err == nil && len(writes) > 0 {
			c.oracle()
			total := 0
			for _, t := range writes {
				total += uvarintLen(len(t)) + len(t)
			}
			got, perr := share.ParseTxs(sh)
			if perr != nil || !eqTxs(got, writes) {
				c.violate("C09", "", fmt.Sprintf("after the splitter history [%s] ParseTxs(Export()) returns %d txs (err=%v), %d were written", strings.TrimSpace(desc), len(got), perr, len(writes)), "", c.caseOps)
			} else if int(sl) != total || len(sh) != share.CompactSharesNeeded(uint32(total)) {
				c.violate("C09", "", fmt.Sprintf("after the splitter history [%s] the sequence declares %d bytes in %d shares; %d length-prefixed bytes were written (%d shares needed)", strings.TrimSpace(desc), sl, len(sh), total, share.CompactSharesNeeded(uint32(total))), "", c.caseOps)
			}
		}
		// C11 after any history: every sub-range of the exported shares parses to exactly the writes that begin
		// and are complete inside it
		if err == nil && len(writes) > 0 && len(sh) > 1 && exportBetween {
			n := len(sh)
			T := 0
			starts := make([]int, len(writes))
			ends := make([]int, len(writes))
			for wi, t := range writes {
				starts[wi] = T
				T += uvarintLen(len(t)) + len(t)
				ends[wi] = T
			}
			for lo := 0; lo < n; lo++ {
				for hi := lo + 1; hi <= n; hi++ {
					if lo == 0 && hi == n {
						continue
					}
					if n > 6 && !(hi-lo <= 2 || lo == 0 || hi == n) && !c.rng.Chance(1, 6) {
						continue
					}
					o, got, _ := safeParseTxs(sh[lo:hi])
					c.emit(fmt.Sprintf("sh parsetxs %d %d", lo, hi), o)
					c.oracle()
					bLo, bHi := compactOff(lo), compactOff(hi)
					if bHi > T {
						bHi = T
					}
					var want [][]byte
					for wi := range writes {
						if starts[wi] >= bLo && ends[wi] <= bHi {
							want = append(want, writes[wi])
						}
					}
					if !eqTxs(got, want) {
						c.violate("C11", "", fmt.Sprintf("after the splitter history [%s] ParseTxs(shares[%d:%d]) returned %d txs; %d writes begin and are complete inside the range", strings.TrimSpace(desc), lo, hi, len(got), len(want)), o, c.caseOps)
					}
				}
			}
		}
		// oracle C14b: fresh splitter fed only the writes
		c.oracle()
		ref := share.NewCompactShareSplitter(ns, 0)
		for _, t := range writes {
			ref.WriteTx(t)
		}
		want, _ := ref.Export()
		if err != nil || digList(sharesToBytes(sh)) != digList(sharesToBytes(want)) {
			got, _ := share.ParseTxs(sh)
			c.violate("C14", "", fmt.Sprintf("splitter history [%s] exports %d shares (parse: %d txs); a fresh splitter fed the same %d writes exports %d shares", strings.TrimSpace(desc), len(sh), len(got), len(writes), len(want)), "", c.caseOps)
		}
		if exportBetween {
			c.nontrivial(desc)
			c.dist("export-between-writes")
		}
	}
}

func okOr(err error, s string) string {
	if err != nil {
		return "err"
	}
	return s
}
