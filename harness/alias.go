package main

import (
	"bytes"
	"encoding/json"
	"fmt"
	"strings"
	"sync"
	"unsafe"

	square "github.com/celestiaorg/go-square/v2"
	"github.com/celestiaorg/go-square/v2/inclusion"
	"github.com/celestiaorg/go-square/v2/share"
	"github.com/celestiaorg/go-square/v2/tx"
)

func init() {
	streams["ALIAS"] = streamAlias
	streamRules["ALIAS"] = "Go-side only (no model ops): inputs of BUILDER/SPARSE/COMPACT laid out as views into ONE contiguous buffer with spare capacity behind every slice; byte snapshot of the whole buffer before/after every read-only entry point (ParseBlobs, ParseTxs, ParseShares, Sequence.RawData, range lookup, Deconstruct, WrappedPFBs, accessors, Construct, Build, TxShareRange, BlobShareRange, GenerateSubtreeRoots, CreateCommitment, MarshalBlobTx, Blob.Marshal/ToShares) and of the package-level namespaces; N concurrent readers must return the single-threaded result (run under -race in the thorough tier); non-trivial = distinct layout with a multi-share blob Added after the seeded rounds: values handed out are mutated and requested again (no hidden shared state), decoding JSON (base64 / array-of-numbers / rejected) into receivers that hold views, snapshots of the caller's outer slice, committing to blobs of 40..300 shares built on views; the race detector runs in both tiers."
}

// flatten lays the given byte strings out in one buffer; every returned slice has the rest of the
// buffer as spare capacity.
func flatten(items [][]byte, gap int) (flat []byte, views [][]byte) {
	total := gap
	for _, it := range items {
		total += len(it) + gap
	}
	flat = make([]byte, total)
	for i := range flat {
		flat[i] = 0xA5
	}
	off := gap
	views = make([][]byte, len(items))
	for i, it := range items {
		copy(flat[off:], it)
		views[i] = flat[off : off+len(it)]
		off += len(it) + gap
	}
	return flat, views
}

func pkgSnapshot() []byte {
	var out []byte
	for _, ns := range []share.Namespace{share.TxNamespace, share.IntermediateStateRootsNamespace, share.PayForBlobNamespace, share.PrimaryReservedPaddingNamespace,
		share.MaxPrimaryReservedNamespace, share.MinSecondaryReservedNamespace, share.TailPaddingNamespace, share.ParitySharesNamespace} {
		out = append(out, ns.Bytes()...)
	}
	out = append(out, share.NamespaceVersionZeroPrefix...)
	out = append(out, share.SupportedShareVersions...)
	out = append(out, share.SupportedBlobNamespaceVersions...)
	return out
}

type roCall struct {
	name string
	run  func() string
}

// outerHeaders records which memory every element of a caller-owned slice of byte slices points to:
// a read-only call must not rearrange or overwrite the caller's outer slice either
func outerHeaders(vs [][]byte) string {
	out := ""
	for _, v := range vs {
		out += fmt.Sprintf("%p:%d:%d;", unsafe.SliceData(v), len(v), cap(v))
	}
	return out
}

func (c *Ctx) aliasCheck(key string, flat []byte, calls []roCall, outer ...[][]byte) {
	pkg0 := pkgSnapshot()
	single := make([]string, len(calls))
	for i, call := range calls {
		snap := append([]byte(nil), flat...)
		var hdr0 []string
		var hdrCopy [][][]byte
		for _, o := range outer {
			hdr0 = append(hdr0, outerHeaders(o))
			hdrCopy = append(hdrCopy, append([][]byte(nil), o...))
		}
		single[i] = safe(call.run)
		c.oracle()
		c.stats.Ops++
		for oi, o := range outer {
			if outerHeaders(o) != hdr0[oi] {
				c.violate("C17", "", fmt.Sprintf("%s rearranged or overwrote the caller's slice of inputs (element headers changed; layout %s)", call.name, key), "", []string{call.name})
				copy(o, hdrCopy[oi])
			}
		}
		if !bytes.Equal(snap, flat) {
			first := 0
			for first < len(flat) && snap[first] == flat[first] {
				first++
			}
			c.violate("C17", "", fmt.Sprintf("%s modified its input buffer (first changed byte at offset %d of %d; layout %s)", call.name, first, len(flat), key), "", []string{call.name})
			copy(flat, snap)
		}
		if !bytes.Equal(pkg0, pkgSnapshot()) {
			c.violate("C17", "", call.name+" modified a package-level value", "", []string{call.name})
		}
	}
	// concurrent readers
	const readers = 4
	var wg sync.WaitGroup
	results := make([][]string, readers)
	for r := 0; r < readers; r++ {
		wg.Add(1)
		go func(r int) {
			defer wg.Done()
			res := make([]string, len(calls))
			for i, call := range calls {
				res[i] = safe(call.run)
			}
			results[r] = res
		}(r)
	}
	wg.Wait()
	for r := range results {
		for i := range calls {
			if results[r][i] != single[i] {
				c.violate("C17", "", fmt.Sprintf("%s returned a different result when run concurrently with other readers", calls[i].name), "", []string{calls[i].name})
			}
		}
	}
}

// freshResults: values the library hands out must not alias hidden shared state - mutate what one call
// returned (the bytes and the slice elements) and call again: the second result must be what the first was
func (c *Ctx) freshResults() {
	type gen struct {
		name string
		run  func() [][]byte
		mut  func()
	}
	var last []share.Share
	shareList := func(name string, f func() []share.Share) gen {
		return gen{name, func() [][]byte { last = f(); return sharesToBytes(last) }, func() {
			for i := range last {
				b := last[i].ToBytes()
				for j := range b {
					b[j] ^= 0xff
				}
			}
			if len(last) > 0 {
				junk, _ := share.NewShare(bytes.Repeat([]byte{0x11}, 512))
				last[0] = *junk
			}
		}}
	}
	gens := []gen{
		shareList("square.EmptySquare()", func() []share.Share { return square.EmptySquare() }),
		shareList("square.Construct(nil)", func() []share.Share { s, _ := square.Construct(nil, 4, 64); return s }),
		shareList("square.Build(nil)", func() []share.Share { s, _, _ := square.Build(nil, 4, 64); return s }),
		shareList("share.TailPaddingShares(2)", func() []share.Share { return share.TailPaddingShares(2) }),
		shareList("share.ReservedPaddingShares(2)", func() []share.Share { return share.ReservedPaddingShares(2) }),
		shareList("share.TailPaddingShare()", func() []share.Share { return []share.Share{share.TailPaddingShare()} }),
		shareList("share.ReservedPaddingShare()", func() []share.Share { return []share.Share{share.ReservedPaddingShare()} }),
	}
	for _, g := range gens {
		c.oracle()
		first := digList(g.run())
		g.mut()
		second := digList(g.run())
		// also after decoding JSON into the variable that received the first result (reuse of a square variable)
		if first != second {
			c.violate("C17", "", g.name+" hands out memory that a later call returns again: after the caller modified the first result, the second call returns different bytes", "", []string{g.name})
		}
	}
	// the documented idiom `sq, _ := Construct(nil, ...); json.Unmarshal(nextBlock, &sq)` must not change what
	// the library returns for the empty list afterwards
	c.oracle()
	before := digList(sharesToBytes(square.EmptySquare()))
	sq, _ := square.Construct(nil, 4, 64)
	w := share.NewCompactShareSplitter(share.TxNamespace, 0)
	w.WriteTx([]byte{1, 2, 3})
	blk, _ := w.Export()
	js, _ := json.Marshal(blk)
	_ = json.Unmarshal(js, &sq)
	if after := digList(sharesToBytes(square.EmptySquare())); after != before {
		c.violate("C17", "", "decoding JSON into a variable that held the result of Construct(nil) changed what EmptySquare() returns", "", []string{"Construct(nil) + json.Unmarshal"})
	}
	empty := square.EmptySquare()
	if _, out := safeDeconstruct(empty); !strings.HasPrefix(out, "ok") {
		c.violate("C17", "", "Deconstruct(EmptySquare()) fails after an earlier result of Construct(nil) was reused by the caller: "+out, "", nil)
	}
}

// commitViews: committing to larger blobs (40..300 shares, i.e. dozens to hundreds of subtrees at the usual
// thresholds) built on views of one buffer: nothing may be written, concurrent callers get the same result
// (under the race detector this also covers races INSIDE one call)
func (c *Ctx) commitViews() {
	for rep := 0; rep < c.n(6, 40); rep++ {
		ns := c.userNamespaces(1)[0]
		spec := c.randBlob(ns, 478+482*c.rng.Range(39, 300)-c.rng.Intn(400), rep%2 == 1)
		flat, views := flatten([][]byte{spec.ns, spec.data, spec.signer}, c.rng.Pick([]int{0, 7, 600}))
		nsV, err := share.NewNamespaceFromBytes(views[0])
		if err != nil {
			continue
		}
		var signer []byte
		if spec.ver == 1 {
			signer = views[2]
		}
		vb, err := share.NewBlob(nsV, views[1], spec.ver, signer)
		if err != nil {
			continue
		}
		thr := c.rng.Pick([]int{1, 64, 64, 1 << 20})
		c.aliasCheck(fmt.Sprintf("large blob views (%d bytes, threshold %d)", len(spec.data), thr), flat, []roCall{
			{"GenerateSubtreeRoots(large blob)", func() string {
				r, err := inclusion.GenerateSubtreeRoots(vb, thr)
				return fmt.Sprint(len(r), err) + digList(r)
			}},
			{"CreateCommitment(large blob)", func() string {
				r, err := inclusion.CreateCommitment(vb, simpleMerkle, thr)
				return hx(r) + fmt.Sprint(err)
			}},
			{"Blob.ToShares(large blob)", func() string {
				sh, err := vb.ToShares()
				return fmt.Sprint(len(sh), err) + digList(sharesToBytes(sh))
			}},
		})
		c.dist("large-blob-views")
	}
}

// namespaceReceivers: the pure namespace methods (AddInt, Compare and the predicates, Bytes/ID, validation,
// JSON) with package-level namespaces and namespaces that are views into one buffer as receivers and arguments
func (c *Ctx) namespaceReceivers() {
	pkg := []share.Namespace{share.TxNamespace, share.IntermediateStateRootsNamespace, share.PayForBlobNamespace, share.PrimaryReservedPaddingNamespace,
		share.MaxPrimaryReservedNamespace, share.MinSecondaryReservedNamespace, share.TailPaddingNamespace, share.ParitySharesNamespace}
	var raw [][]byte
	for _, ns := range pkg {
		raw = append(raw, ns.Bytes())
	}
	raw = append(raw, v0ns(1).Bytes(), v0ns(0xff, 0xff).Bytes(), v0ns(bytes.Repeat([]byte{0xff}, 10)...).Bytes(), v0ns(1, 0, 0, 0).Bytes())
	for _, gap := range []int{0, 3, 40} {
		flat, views := flatten(raw, gap)
		var recv []share.Namespace
		for _, v := range views {
			ns, err := share.NewNamespaceFromBytes(v)
			if err != nil {
				continue
			}
			recv = append(recv, ns)
		}
		// the package-level values themselves as receivers: pkgSnapshot inside aliasCheck watches them
		recv = append(recv, pkg...)
		var calls []roCall
		for i := range recv {
			n := recv[i]
			for _, v := range []int{0, 1, -1, 255, 256, -256, 1 << 20, -(1 << 20), 1 << 40} {
				v := v
				calls = append(calls, roCall{fmt.Sprintf("Namespace.AddInt(%x, %d)", n.Bytes(), v), func() string {
					r, err := n.AddInt(v)
					return hx(r.Bytes()) + fmt.Sprint(err != nil)
				}})
			}
			calls = append(calls, roCall{fmt.Sprintf("Namespace predicates/accessors (%x)", n.Bytes()), func() string {
				out := fmt.Sprint(n.Version(), hx(n.ID()), hx(n.Bytes()), n.String(), n.IsReserved(), n.IsPrimaryReserved(), n.IsSecondaryReserved(), n.IsUsableNamespace(),
					n.IsParityShares(), n.IsTailPadding(), n.IsPrimaryReservedPadding(), n.IsTx(), n.IsPayForBlob(), n.ValidateForData() == nil, n.ValidateForBlob() == nil,
					n.IsEmpty(), len(n.Repeat(2)))
				for _, m := range recv {
					out += fmt.Sprint(n.Compare(m), n.Equals(m), n.IsLessThan(m), n.IsLessOrEqualThan(m), n.IsGreaterThan(m), n.IsGreaterOrEqualThan(m))
				}
				j, err := n.MarshalJSON()
				return out + string(j) + fmt.Sprint(err != nil)
			}})
		}
		c.aliasCheck(fmt.Sprintf("namespace receivers gap=%d", gap), flat, calls)
		c.stats.Cases++
	}
	c.dist("namespace-receivers")
}

func streamAlias(c *Ctx) {
	c.stats.Cases = 0
	c.freshResults()
	c.commitViews()
	c.namespaceReceivers()
	nc := c.n(300, 4000)
	for i := 0; i < nc; i++ {
		c.stats.Cases++
		gap := c.rng.Pick([]int{0, 0, 1, 7, 600})
		switch c.rng.Intn(4) {
		case 3: // a compact sequence followed by tail padding, contiguous: out-of-context parsing of single shares
			w := share.NewCompactShareSplitter(share.TxNamespace, 0)
			desc := ""
			T := 0
			for k := c.rng.Range(1, 4); k > 0; k-- {
				n := c.compactLen()
				w.WriteTx(c.rng.Bytes(n))
				T += n + uvarintLen(n)
				desc += fmt.Sprint(n, ",")
			}
			// a last tx ending 1..9 bytes before the end of its share (short remainder after the last unit)
			end := 474
			for end < T+12 {
				end += 478
			}
			r := end - c.rng.Range(1, 9) - T
			L := r - 1
			for L > 0 && L+uvarintLen(L) > r {
				L--
			}
			if L > 0 {
				w.WriteTx(c.rng.Bytes(L))
				desc += fmt.Sprint(L, "(short-remainder)")
			}
			sh, _ := w.Export()
			list := append(sharesToBytes(sh), sharesToBytes(share.TailPaddingShares(1))...)
			flat, views := flatten(list, 0)
			shares, _ := share.FromBytes(views)
			n := len(shares)
			c.nontrivial("compact " + desc)
			var calls []roCall
			for i := 0; i < n-1; i++ {
				i := i
				calls = append(calls, roCall{fmt.Sprintf("ParseTxs(shares[%d:%d])", i, i+1), func() string { o, _, _ := safeParseTxs(shares[i : i+1]); return o }})
			}
			calls = append(calls, roCall{"ParseTxs(all tx shares)", func() string { o, _, _ := safeParseTxs(shares[:n-1]); return o }},
				roCall{"ParseShares", func() string { o, _ := safeParseShares(shares, false); return o }},
				roCall{"Sequence.RawData", func() string {
					o, _ := safeSeqRaw(share.Sequence{Namespace: shares[0].Namespace(), Shares: shares[:n-1]})
					return o
				}})
			c.aliasCheck("compact shares "+desc, flat, calls)
			c.dist("compact-shares")
		case 0: // blob sequence shares
			k := c.rng.Range(1, 3)
			var list [][]byte
			var blobs []*share.Blob
			desc := ""
			for j := 0; j < k; j++ {
				spec := c.randBlob(c.userNamespaces(1)[0], c.sparseLen(5), c.rng.Chance(1, 3))
				b, _ := spec.blob()
				blobs = append(blobs, b)
				sh, _ := b.ToShares()
				list = append(list, sharesToBytes(sh)...)
				desc += fmt.Sprintf("v%d:%d ", spec.ver, len(spec.data))
			}
			flat, views := flatten(list, gap)
			shares, _ := share.FromBytes(views)
			n := len(shares)
			if n > k {
				c.nontrivial(desc + fmt.Sprint(gap))
			}
			// a decoder given a receiver that already HOLDS a view must not write through it: JSON in the
			// base64 form and in the array-of-numbers form, and a 513-element array that is rejected
			other := c.rng.Bytes(512)
			copy(other, shares[0].ToBytes()[:29])
			otherShare, _ := share.NewShare(other)
			b64JSON, _ := json.Marshal(*otherShare)
			nums := make([]string, 512)
			for bi, bb := range other {
				nums[bi] = fmt.Sprint(bb)
			}
			arrJSON := []byte("[" + strings.Join(nums, ",") + "]")
			longJSON := []byte("[" + strings.Join(nums, ",") + ",1]")
			decodeInto := func(js []byte) string {
				dst := shares[0] // a copy of the struct, still a view of the flat buffer
				err := json.Unmarshal(js, &dst)
				return fmt.Sprint(err == nil, dig(dst.ToBytes()))
			}
			c.aliasCheck("blob shares "+desc, flat, []roCall{
				{"Share.UnmarshalJSON(base64) into a share holding a view", func() string { return decodeInto(b64JSON) }},
				{"Share.UnmarshalJSON(array of numbers) into a share holding a view", func() string { return decodeInto(arrJSON) }},
				{"Share.UnmarshalJSON(513 numbers, rejected) into a share holding a view", func() string { return decodeInto(longJSON) }},
				{"ParseBlobs", func() string { o, _ := safeParseBlobs(shares); return o }},
				{"ParseShares", func() string { o, _ := safeParseShares(shares, false); return o }},
				{"Sequence.RawData", func() string {
					o, _ := safeSeqRaw(share.Sequence{Namespace: shares[0].Namespace(), Shares: shares[:min(n, 3)]})
					return o
				}},
				{"GetShareRangeForNamespace", func() string { return fmt.Sprint(share.GetShareRangeForNamespace(shares, shares[0].Namespace())) }},
				{"share accessors", func() string { return shareDecodeStr(&shares[0]) + shareDecodeStr(&shares[n-1]) }},
				{"ParseTxs", func() string { o, _, _ := safeParseTxs(shares); return o }},
			})
			c.dist("blob-shares")
		case 1: // a constructed square as one flat buffer
			sc := c.genSquareCase([]int{2, 4, 4, 8})
			b := safeBuild(rawList(sc.txs), sc.max, sc.thr)
			if b.err != nil {
				continue
			}
			flat, views := flatten(sharesToBytes(b.sq), gap)
			shares, _ := share.FromBytes(views)
			sq := square.Square(shares)
			c.nontrivial(sc.desc)
			c.aliasCheck("square "+trunc(sc.desc, 80), flat, []roCall{
				{"Deconstruct", func() string { _, o := safeDeconstruct(sq); return o }},
				{"WrappedPFBs", func() string { _, o := safeWPFBs(sq); return o }},
				{"ParseShares", func() string { o, _ := safeParseShares(shares, true); return o }},
				{"ParseBlobs", func() string { o, _ := safeParseBlobs(shares); return o }},
				{"ParseTxs", func() string {
					r := share.GetShareRangeForNamespace(shares, share.TxNamespace)
					o, _, _ := safeParseTxs(shares[r.Start:r.End])
					return o
				}},
				{"Square.Size/IsEmpty/Equals", func() string { return fmt.Sprint(sq.Size(), sq.IsEmpty(), sq.Equals(sq)) }},
			})
			c.dist("flat-square")
		default: // transactions and blob data as views: construct / commit paths
			sc := c.genSquareCase([]int{2, 4, 8})
			flat, views := flatten(rawList(sc.txs), gap)
			var blobs []*share.Blob
			for _, v := range views {
				if btx, is, err := tx.UnmarshalBlobTx(v); is && err == nil {
					blobs = append(blobs, btx.Blobs...)
				}
			}
			calls := []roCall{
				{"Build", func() string { return safeBuild(views, sc.max, sc.thr).out }},
				{"Construct", func() string {
					b := safeBuild(views, sc.max, sc.thr)
					_, o, _ := safeConstruct(b.kept, sc.max, sc.thr)
					return o
				}},
				{"TxShareRange", func() string {
					b := safeBuild(views, sc.max, sc.thr)
					r, err := safeTxRange(b.kept, len(b.kept)-1, sc.max, sc.thr)
					return rangeOutBare(r, err)
				}},
				{"BlobShareRange", func() string {
					b := safeBuild(views, sc.max, sc.thr)
					r, err := square.BlobShareRange(b.kept, len(b.kept)-1, 0, sc.max, sc.thr)
					return rangeOutBare(r, err)
				}},
			}
			if len(blobs) > 0 {
				// blobs built directly on views of the flat buffer
				bl := blobs[0]
				dflat, dviews := flatten([][]byte{bl.Namespace().Bytes(), bl.Data(), bl.Signer()}, gap)
				ns, _ := share.NewNamespaceFromBytes(dviews[0])
				var signer []byte
				if bl.ShareVersion() == 1 {
					signer = dviews[2]
				}
				vb, err := share.NewBlob(ns, dviews[1], bl.ShareVersion(), signer)
				if err == nil {
					c.aliasCheck("blob views", dflat, []roCall{
						{"GenerateSubtreeRoots", func() string {
							r, err := inclusion.GenerateSubtreeRoots(vb, sc.thr)
							return fmt.Sprint(len(r), err) + digList(r)
						}},
						{"CreateCommitment", func() string {
							r, err := inclusion.CreateCommitment(vb, simpleMerkle, sc.thr)
							return hx(r) + fmt.Sprint(err)
						}},
						{"Blob.ToShares", func() string { s, _ := vb.ToShares(); return digList(sharesToBytes(s)) }},
						{"Blob.Marshal", func() string { m, _ := vb.Marshal(); return dig(m) }},
						{"MarshalBlobTx", func() string { m, _ := tx.MarshalBlobTx(dviews[1], vb); return dig(m) }},
						{"MarshalDelimitedTx", func() string { m, _ := share.MarshalDelimitedTx(dviews[1]); return dig(m) }},
					})
				}
			}
			c.aliasCheck("tx views "+trunc(sc.desc, 80), flat, calls, views)
			c.dist("tx-views")
		}
	}
}
