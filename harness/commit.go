package main

import (
	"bytes"
	"crypto/sha256"
	"fmt"
	"strings"
	"sync"

	square "github.com/celestiaorg/go-square/v2"
	"github.com/celestiaorg/go-square/v2/inclusion"
	"github.com/celestiaorg/go-square/v2/share"
	"github.com/celestiaorg/go-square/v2/tx"
	"github.com/celestiaorg/nmt"
)

func init() {
	streams["COMMIT"] = streamCommit
	streamRules["COMMIT"] = "constructed squares (as in BUILDER): for every placed blob GenerateSubtreeRoots bytes vs the Lean NMT/SHA-256 model, and the oracle of C05: every subtree root equals an inner node the real nmt library visits while computing the row root over the same shares, no chunk spans two rows, CreateCommitment == merkleRoot(subtree roots), the roots do not depend on the placement; row roots of the square also go through the model; non-trivial = distinct (blob shares, threshold, start index) Added: history and representation independence (flat [namespace|data] record), CreateCommitments vs CreateCommitment, concurrent commitments, 1024-share blobs vs an independent nmt reference."
}

// rowInnerNodes computes the row root with the real nmt library and records every visited node.
func rowInnerNodes(row [][]byte) (root []byte, nodes map[string]bool, err error) {
	nodes = map[string]bool{}
	tree := nmt.New(sha256.New(), nmt.NamespaceIDSize(share.NamespaceSize), nmt.IgnoreMaxNamespace(true),
		nmt.NodeVisitor(func(hash []byte, children ...[]byte) { nodes[string(hash)] = true }))
	for _, s := range row {
		leaf := append(append([]byte(nil), s[:share.NamespaceSize]...), s...)
		if err := tree.Push(leaf); err != nil {
			return nil, nil, err
		}
	}
	root, err = tree.Root()
	return root, nodes, err
}

func simpleMerkle(items [][]byte) []byte {
	h := sha256.New()
	for _, it := range items {
		h.Write(it)
	}
	return h.Sum(nil)
}

func (c *Ctx) commitCase(sc sqCase) {
	defer c.recoverCase()
	txs := rawList(sc.txs)
	b := safeBuild(txs, sc.max, sc.thr)
	if b.err != nil {
		return
	}
	c.newCase()
	sq := b.sq
	raw := sharesToBytes(sq)
	side := sq.Size()
	c.setClass(sc.class)
	c.emit("sh set "+hxList(raw), "ok "+digList(raw))
	wp, _ := safeWPFBs(sq)
	rowCache := map[int]map[string]bool{}
	for i := 0; i < side && i < 4; i++ {
		root, nodes, err := rowInnerNodes(raw[i*side : (i+1)*side])
		if err != nil {
			c.violate("C05", sc.class, "the row tree of a constructed square cannot be built: "+err.Error(), "", c.caseOps)
			return
		}
		rowCache[i] = nodes
		c.emit(fmt.Sprintf("sh rowroot %d %d", side, i), hx(root))
	}
	pi := 0
	for _, k := range b.kept {
		btx, is, _ := tx.UnmarshalBlobTx(k)
		if !is {
			continue
		}
		if pi >= len(wp) {
			return
		}
		iw, ok := tx.UnmarshalIndexWrapper(wp[pi])
		pi++
		if !ok {
			return
		}
		for j, blob := range btx.Blobs {
			spec := blobSpec{ns: blob.Namespace().Bytes(), ver: blob.ShareVersion(), signer: blob.Signer(), data: blob.Data()}
			roots, err := inclusion.GenerateSubtreeRoots(blob, sc.thr)
			op := fmt.Sprintf("commit roots %s %d", spec.String(), sc.thr)
			if err != nil {
				c.emit(op, "err")
				continue
			}
			parts := make([]string, len(roots))
			for i, r := range roots {
				parts[i] = hx(r)
			}
			c.emit(op, "ok "+strings.Join(parts, ","))
			c.oracle()
			own, _ := blob.ToShares()
			n := len(own)
			if j >= len(iw.ShareIndexes) {
				return
			}
			idx := int(iw.ShareIndexes[j])
			c.nontrivial(fmt.Sprintf("%d/%d/%d/%d", n, sc.thr, idx, side))
			w := inclusion.SubTreeWidth(n, sc.thr)
			sizes, _ := inclusion.MerkleMountainRangeSizes(uint64(n), uint64(w))
			fail := func(what string) {
				c.violate("C05", sc.class, fmt.Sprintf("%s (blob of %d shares at index %d, side %d, threshold %d, width %d, sizes %v)", what, n, idx, side, sc.thr, w, sizes), "", []string{c.caseOps[0], op})
			}
			if len(sizes) != len(roots) {
				fail("number of subtree roots differs from the mountain range")
				continue
			}
			off := idx
			for ci, sz := range sizes {
				rowA, rowB := off/side, (off+int(sz)-1)/side
				if rowA != rowB {
					fail(fmt.Sprintf("subtree %d spans rows %d and %d", ci, rowA, rowB))
					break
				}
				nodes, ok := rowCache[rowA]
				if !ok {
					_, nodes, err = rowInnerNodes(raw[rowA*side : (rowA+1)*side])
					if err != nil {
						fail("row tree cannot be built")
						break
					}
					rowCache[rowA] = nodes
				}
				if !nodes[string(roots[ci])] {
					fail(fmt.Sprintf("subtree root %d (shares [%d,%d)) is not an inner node of the tree of row %d", ci, off, off+int(sz), rowA))
					break
				}
				off += int(sz)
			}
			cm, err := inclusion.CreateCommitment(blob, simpleMerkle, sc.thr)
			if err != nil || !bytes.Equal(cm, simpleMerkle(roots)) {
				fail("CreateCommitment is not the Merkle root over the subtree roots")
			}
		}
	}
}

// refSubtreeRoots computes the subtree roots of a blob independently of inclusion.GenerateSubtreeRoots: the
// blob's shares cut into the mountain range of the reference width, each chunk hashed by a fresh nmt tree
func refSubtreeRoots(b *share.Blob, thr int) ([][]byte, error) {
	sh, err := b.ToShares()
	if err != nil {
		return nil, err
	}
	n := uint64(len(sh))
	w := refLeastPow2Ge(refCeilDiv(n, uint64(thr)))
	if ms := refMinSide(n); ms < w {
		w = ms
	}
	var roots [][]byte
	pos := uint64(0)
	for pos < n {
		size := w
		for size > n-pos {
			size /= 2
		}
		tree := nmt.New(sha256.New(), nmt.NamespaceIDSize(share.NamespaceSize), nmt.IgnoreMaxNamespace(true))
		for _, s := range sh[pos : pos+size] {
			raw := s.ToBytes()
			leaf := append(append([]byte(nil), b.Namespace().Bytes()...), raw...)
			if err := tree.Push(leaf); err != nil {
				return nil, err
			}
		}
		r, err := tree.Root()
		if err != nil {
			return nil, err
		}
		roots = append(roots, r)
		pos += size
	}
	return roots, nil
}

// commitBatchesAndConcurrency: the batch entry point agrees with the single one position by position; large
// blobs (>= 1024 shares) agree with the independent reference; commitments computed concurrently on
// different blobs agree with the sequential ones
func (c *Ctx) commitBatchesAndConcurrency() {
	ns := c.userNamespaces(3)
	for rep := 0; rep < c.n(6, 60); rep++ {
		c.oracle()
		k := c.rng.Range(4, 10)
		blobs := make([]*share.Blob, k)
		for j := range blobs {
			n := c.sparseLen(6)
			if j == 0 {
				n = c.rng.Range(60000, 200000) // the first one much larger than the rest
			}
			spec := c.randBlob(ns[j%3], n, j%3 == 1)
			blobs[j], _ = spec.blob()
		}
		thr := c.rng.Pick([]int{1, 2, 64})
		single := make([][]byte, k)
		for j, b := range blobs {
			single[j], _ = inclusion.CreateCommitment(b, simpleMerkle, thr)
		}
		batch, err := inclusion.CreateCommitments(blobs, simpleMerkle, thr)
		okB := err == nil && len(batch) == k
		for j := 0; okB && j < k; j++ {
			okB = bytes.Equal(batch[j], single[j])
		}
		if !okB {
			c.violate("C05", "", fmt.Sprintf("CreateCommitments of %d blobs does not return, position by position, what CreateCommitment returns for each blob", k), "", nil)
		}
		// concurrently, each on its own blob
		conc := make([][]byte, k)
		var wg sync.WaitGroup
		for j := range blobs {
			wg.Add(1)
			go func(j int) {
				defer wg.Done()
				for r := 0; r < 3; r++ {
					conc[j], _ = inclusion.CreateCommitment(blobs[j], simpleMerkle, thr)
				}
			}(j)
		}
		wg.Wait()
		for j := range blobs {
			if !bytes.Equal(conc[j], single[j]) {
				c.violate("C05", "", "a commitment computed while other blobs were being committed concurrently differs from the one computed alone", "", nil)
				break
			}
		}
	}
	// large blobs against the independent reference
	for _, n := range []int{478 + 482*1023, 478 + 482*1100 - 7, 1 << 20} {
		c.oracle()
		spec := c.randBlob(ns[0], n, n%2 == 1)
		b, _ := spec.blob()
		for _, thr := range []int{64, 1} {
			got, err := inclusion.GenerateSubtreeRoots(b, thr)
			want, rerr := refSubtreeRoots(b, thr)
			if err != nil || rerr != nil || digList(got) != digList(want) {
				c.violate("C05", "", fmt.Sprintf("the subtree roots of a %d-byte blob at threshold %d differ from the roots computed chunk by chunk with the nmt library", n, thr), "", nil)
			}
			com, _ := inclusion.CreateCommitment(b, simpleMerkle, thr)
			if !bytes.Equal(com, simpleMerkle(want)) {
				c.violate("C05", "", fmt.Sprintf("the commitment of a %d-byte blob at threshold %d is not the Merkle root of its subtree roots", n, thr), "", nil)
			}
		}
		if !c.thorough {
			break
		}
	}
}

// commitTwins: blobs that differ from one another in exactly one attribute (signer, share version, namespace,
// one data byte, one byte of length) are committed to one after the other, each at several thresholds: every
// commitment must be the Merkle root over that blob's own subtree roots (computed by GenerateSubtreeRoots, by the
// independent chunk-by-chunk reference and by the model), whatever was committed to before
func (c *Ctx) commitTwins() {
	for rep := 0; rep < c.n(12, 200); rep++ {
		ns := c.userNamespaces(2)
		n := c.rng.Pick([]int{1, 100, 458, 459, 478, 479, 940, 1500, c.sparseLen(8)})
		base := c.randBlob(ns[0], n, true)
		twins := []blobSpec{base}
		add := func(f func(b *blobSpec)) {
			t := blobSpec{ns: append([]byte(nil), base.ns...), ver: base.ver, signer: append([]byte(nil), base.signer...), data: append([]byte(nil), base.data...)}
			f(&t)
			twins = append(twins, t)
		}
		add(func(b *blobSpec) { b.signer[c.rng.Intn(20)] ^= 0x01 })
		add(func(b *blobSpec) { b.signer = c.rng.Bytes(20) })
		add(func(b *blobSpec) { b.ver = 0; b.signer = nil })
		add(func(b *blobSpec) { b.ns = append([]byte(nil), ns[1].Bytes()...) })
		add(func(b *blobSpec) { b.ns[28] ^= 0x01 })
		add(func(b *blobSpec) { b.data[len(b.data)-1] ^= 0x80 })
		add(func(b *blobSpec) { b.data[0] ^= 0x01 })
		add(func(b *blobSpec) { b.data = append(b.data, 0) })
		add(func(b *blobSpec) {
			b.ver = 0
			b.signer = nil
			b.data = append(append([]byte(nil), base.signer...), base.data...)
		})
		twins = append(twins, base)
		for _, thr := range []int{64, 1, 2} {
			for ti, t := range twins {
				blob, err := t.blob()
				if err != nil {
					continue
				}
				c.oracle()
				com, err1 := inclusion.CreateCommitment(blob, simpleMerkle, thr)
				roots, err2 := inclusion.GenerateSubtreeRoots(blob, thr)
				want, err3 := refSubtreeRoots(blob, thr)
				if thr != 2 && len(t.data) <= 2000 {
					op := fmt.Sprintf("commit roots %s %d", t.String(), thr)
					if err2 != nil {
						c.emit(op, "err")
					} else {
						parts := make([]string, len(roots))
						for i, r := range roots {
							parts[i] = hx(r)
						}
						c.emit(op, "ok "+strings.Join(parts, ","))
					}
				}
				if err1 != nil || err2 != nil || err3 != nil || digList(roots) != digList(want) || !bytes.Equal(com, simpleMerkle(want)) {
					c.violate("C05", "", fmt.Sprintf("twin %d of a %d-byte version-1 blob (differs from the blob committed before in one attribute), threshold %d: the commitment is not the Merkle root over this blob's own subtree roots", ti, n, thr), t.String(), nil)
				}
				batch, err4 := inclusion.CreateCommitments([]*share.Blob{blob}, simpleMerkle, thr)
				if err4 != nil || len(batch) != 1 || !bytes.Equal(batch[0], simpleMerkle(want)) {
					c.violate("C05", "", fmt.Sprintf("twin %d of a %d-byte version-1 blob, threshold %d: CreateCommitments differs from the Merkle root over this blob's own subtree roots", ti, n, thr), t.String(), nil)
				}
			}
		}
		c.dist("commit-twins")
	}
}

func streamCommit(c *Ctx) {
	c.commitBatchesAndConcurrency()
	c.newCase()
	c.commitTwins()
	nc := c.n(250, 5000)
	maxes := []int{2, 4, 4, 8, 8, 16}
	if c.thorough {
		maxes = []int{2, 4, 8, 16, 32}
	}
	for i := 0; i < nc; i++ {
		sc := c.genSquareCase(maxes)
		if c.rng.Chance(1, 2) {
			sc.thr = c.rng.Pick([]int{1, 2, 3, 4, 5, 6, 7, 8, 63, 64, 65})
		}
		c.commitCase(sc)
	}
	// placement independence: the same blob alone and behind other data; and independence of history:
	// commitments and subtree roots computed earlier are recomputed after other blobs, sizes and thresholds
	type heldC struct {
		blob  *share.Blob
		thr   int
		com   []byte
		roots string
	}
	var held []heldC
	recheck := func(h heldC) {
		c.oracle()
		com, _ := inclusion.CreateCommitment(h.blob, simpleMerkle, h.thr)
		r, _ := inclusion.GenerateSubtreeRoots(h.blob, h.thr)
		if !bytes.Equal(com, h.com) || digList(r) != h.roots {
			c.violate("C05", "", fmt.Sprintf("the commitment / subtree roots of a %d-byte blob at threshold %d differ from what the same call returned earlier in the process", len(h.blob.Data()), h.thr), "", nil)
		}
	}
	for i := 0; i < c.n(40, 1000); i++ {
		if len(held) > 0 {
			recheck(held[c.rng.Intn(len(held))])
		}
		ns := c.userNamespaces(2)
		spec := c.randBlob(ns[1], c.sparseLen(12), c.rng.Bool())
		blob, _ := spec.blob()
		thr := c.rng.Pick([]int{1, 2, 4, 64})
		alone, err1 := inclusion.CreateCommitment(blob, simpleMerkle, thr)
		other := c.randBlob(ns[0], c.sparseLen(6), false)
		txs := [][]byte{c.normalTx(c.compactLen()), c.makeBlobTx([]blobSpec{other, spec}, 20)}
		sq, err := square.Construct(txs, 16, thr)
		c.oracle()
		if err != nil || err1 != nil {
			continue
		}
		_ = sq
		again, _ := inclusion.CreateCommitment(blob, simpleMerkle, thr)
		if !bytes.Equal(alone, again) {
			c.violate("C05", "", "the commitment of a blob changed after it was placed in a square", "", nil)
		}
		r0, _ := inclusion.GenerateSubtreeRoots(blob, thr)
		held = append(held, heldC{blob, thr, alone, digList(r0)})
		// representation independence: the same blob built on ONE flat record [namespace | data] (the namespace
		// is a 29-byte view whose spare capacity is the blob's own data) has the same roots and commitment, twice
		{
			c.oracle()
			record := append(append([]byte(nil), spec.ns...), spec.data...)
			record0 := append([]byte(nil), record...)
			if nsV, err := share.NewNamespaceFromBytes(record[:29]); err == nil {
				if vb, err := share.NewBlob(nsV, record[29:], spec.ver, spec.signer); err == nil {
					rv, _ := inclusion.GenerateSubtreeRoots(vb, thr)
					cv1, _ := inclusion.CreateCommitment(vb, simpleMerkle, thr)
					cv2, _ := inclusion.CreateCommitment(vb, simpleMerkle, thr)
					if digList(rv) != digList(r0) || !bytes.Equal(cv1, alone) || !bytes.Equal(cv2, alone) || !bytes.Equal(record, record0) {
						c.violate("C05", "", fmt.Sprintf("a %d-byte blob built on one flat [namespace|data] record has different subtree roots / commitment than the same blob built on separate allocations (or the record was modified)", len(spec.data)), "", nil)
					}
				}
			}
		}
	}
}
