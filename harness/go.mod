module verif/harness

go 1.23.6

require (
	github.com/celestiaorg/go-square/v2 v2.0.0
	github.com/celestiaorg/nmt v0.22.2
	google.golang.org/protobuf v1.36.6
)

require (
	github.com/gogo/protobuf v1.3.2 // indirect
	golang.org/x/exp v0.0.0-20231206192017-f3f8817b8deb // indirect
)

replace github.com/celestiaorg/go-square/v2 => /repo
