package main

import (
	"bytes"
	"encoding/base64"
	"encoding/json"
	"fmt"
	"strings"

	v1 "github.com/celestiaorg/go-square/v2/proto/blob/v1"
	"github.com/celestiaorg/go-square/v2/share"
	"github.com/celestiaorg/go-square/v2/tx"
	"google.golang.org/protobuf/encoding/protowire"
	"google.golang.org/protobuf/proto"
)

func init() {
	streams["PROTO"] = streamProto
	streamRules["PROTO"] = "protobuf codecs: Marshal/Unmarshal of BlobTx, IndexWrapper and Blob on valid values from the repo's constructors (byte-exact against the modelled encoder) + a malformed stream (bit flips, truncations, duplicated/reordered/unknown fields, wrong wire types, groups, over-long varints, invalid UTF-8, random bytes); blob acceptance grid share version 0..300 x signer {nil, empty, 1, 19, 20, 21, 22 bytes} x data {0,1,5 bytes} x namespace classes through NewBlob and NewBlobFromProto; JSON round trips (Go-side only); oracles for C19; non-trivial = distinct op Added: decoders must not depend on history, nested encodings, hand-written JSON documents (explicit empty / null / absent, null / {} / []), JSON round trip of every boundary namespace."
}

func safeMarshalJSON(b *share.Blob) (out []byte, err error) {
	defer func() {
		if rec := recover(); rec != nil {
			err = fmt.Errorf("panic: %v", rec)
		}
	}()
	return json.Marshal(b)
}

func decodedStr(raw []byte) string {
	return safe(func() string {
		btx, is, err := tx.UnmarshalBlobTx(raw)
		if !is {
			return "normal"
		}
		if err != nil {
			return "bad"
		}
		return fmt.Sprintf("blobtx tx=%d:%s blobs=%s", len(btx.Tx), dig(btx.Tx), blobsStr(btx.Blobs))
	})
}

// refBlobProtoOK: the acceptance predicate of C19 on a decoded BlobProto message, written from the statement
func refBlobProtoOK(pb *v1.BlobProto) bool {
	if pb == nil || pb.NamespaceVersion != 0 || len(pb.NamespaceId) != 28 || !bytes.Equal(pb.NamespaceId[:18], make([]byte, 18)) {
		return false
	}
	if len(pb.Data) == 0 {
		return false
	}
	return (pb.ShareVersion == 0 && len(pb.Signer) == 0) || (pb.ShareVersion == 1 && len(pb.Signer) == 20)
}

// blobTxOracle: whenever UnmarshalBlobTx accepts a byte string as a blob transaction, every blob message in
// it (decoded independently with the protobuf library) satisfies the acceptance predicate, and the returned
// blobs are those messages, one for one
func (c *Ctx) blobTxOracle(raw []byte, op string) {
	c.oracle()
	var btx *tx.BlobTx
	var is bool
	var err error
	panicked := safe(func() string { btx, is, err = tx.UnmarshalBlobTx(raw); return "" }) == "panic"
	if panicked || !is || err != nil {
		return
	}
	var msg v1.BlobTx
	if proto.Unmarshal(raw, &msg) != nil {
		return
	}
	if len(btx.Blobs) != len(msg.Blobs) {
		c.violate("C19", "", fmt.Sprintf("UnmarshalBlobTx accepted a transaction with %d blob messages and returned %d blobs", len(msg.Blobs), len(btx.Blobs)), "", []string{op})
		return
	}
	for i, pb := range msg.Blobs {
		if !refBlobProtoOK(pb) {
			c.violate("C19", "", fmt.Sprintf("UnmarshalBlobTx accepted a transaction whose blob %d of %d does not satisfy the acceptance predicate (namespace version %d, %d id bytes, %d data bytes, share version %d, %d signer bytes)", i, len(msg.Blobs), pb.GetNamespaceVersion(), len(pb.GetNamespaceId()), len(pb.GetData()), pb.GetShareVersion(), len(pb.GetSigner())), "", []string{op})
			return
		}
		b := btx.Blobs[i]
		if b == nil || !bytes.Equal(b.Data(), pb.Data) || b.ShareVersion() != uint8(pb.ShareVersion) || !bytes.Equal(b.Namespace().ID(), pb.NamespaceId) || !bytes.Equal(b.Signer(), pb.Signer) {
			c.violate("C19", "", fmt.Sprintf("UnmarshalBlobTx returned a blob %d that is not the blob message it decoded", i), "", []string{op})
			return
		}
	}
}

func iwStr(raw []byte) string {
	return safe(func() string {
		w, ok := tx.UnmarshalIndexWrapper(raw)
		if !ok {
			return "none"
		}
		return fmt.Sprintf("ok tx=%d:%s idx=[%s]", len(w.Tx), dig(w.Tx), natList(w.ShareIndexes))
	})
}

func blobUnmarshalStr(raw []byte) string {
	return safe(func() string {
		b, err := share.UnmarshalBlob(raw)
		if err != nil {
			return "err"
		}
		return "ok " + blobStr(b)
	})
}

func (c *Ctx) mutate(b []byte) []byte {
	out := append([]byte(nil), b...)
	switch c.rng.Intn(9) {
	case 0: // bit flip
		if len(out) > 0 {
			out[c.rng.Intn(len(out))] ^= 1 << uint(c.rng.Intn(8))
		}
	case 1: // truncate
		if len(out) > 0 {
			out = out[:c.rng.Intn(len(out))]
		}
	case 2: // flip near the start (tags / lengths)
		if len(out) > 0 {
			out[c.rng.Intn(min(len(out), 8))] ^= 1 << uint(c.rng.Intn(8))
		}
	case 3: // append an unknown field
		num := protowire.Number(c.rng.Pick([]int{4, 5, 6, 15, 16, 2047, 1 << 20, 1<<29 - 1}))
		switch c.rng.Intn(5) {
		case 0:
			out = protowire.AppendTag(out, num, protowire.VarintType)
			out = protowire.AppendVarint(out, c.rng.U64())
		case 1:
			out = protowire.AppendTag(out, num, protowire.Fixed32Type)
			out = protowire.AppendFixed32(out, uint32(c.rng.U64()))
		case 2:
			out = protowire.AppendTag(out, num, protowire.Fixed64Type)
			out = protowire.AppendFixed64(out, c.rng.U64())
		case 3:
			out = protowire.AppendTag(out, num, protowire.BytesType)
			out = protowire.AppendBytes(out, c.rng.Bytes(c.rng.Intn(6)))
		default: // group, possibly nested / mismatched
			out = protowire.AppendTag(out, num, protowire.StartGroupType)
			if c.rng.Bool() {
				out = protowire.AppendTag(out, 7, protowire.VarintType)
				out = protowire.AppendVarint(out, 3)
			}
			if c.rng.Chance(1, 3) {
				out = protowire.AppendTag(out, 9, protowire.StartGroupType)
				out = protowire.AppendTag(out, 9, protowire.EndGroupType)
			}
			end := num
			if c.rng.Chance(1, 4) {
				end++
			}
			if !c.rng.Chance(1, 5) {
				out = protowire.AppendTag(out, end, protowire.EndGroupType)
			}
		}
	case 4: // a known field with the wrong wire type
		num := protowire.Number(c.rng.Range(1, 5))
		if c.rng.Bool() {
			out = protowire.AppendTag(out, num, protowire.VarintType)
			out = protowire.AppendVarint(out, uint64(c.rng.Intn(300)))
		} else {
			out = protowire.AppendTag(out, num, protowire.Fixed32Type)
			out = protowire.AppendFixed32(out, 7)
		}
	case 5: // duplicate the message (fields repeated: last scalar wins, repeated appended)
		out = append(out, b...)
	case 6: // prepend a type id / stray string field
		pre := protowire.AppendTag(nil, 3, protowire.BytesType)
		pre = protowire.AppendBytes(pre, []byte(c.rng.Pick2("BLOB", "INDX", "\xff\xfe", "BLO", "")))
		if c.rng.Bool() {
			out = append(pre, out...)
		} else {
			out = append(out, pre...)
		}
	case 7: // over-long varint / bad tags
		out = append(out, c.rng.Pick3([]byte{0x80, 0x80, 0x80, 0x80, 0x80, 0x80, 0x80, 0x80, 0x80, 0x02}, []byte{0x00}, []byte{0xf8, 0xff, 0xff, 0xff, 0x0f, 0x00}, []byte{0x0c}, []byte{0x08, 0x80, 0x80, 0x80, 0x80, 0x80, 0x80, 0x80, 0x80, 0x80, 0x01})...)
	default: // unpacked repeated uint32 / packed with 64-bit values
		out = protowire.AppendTag(out, 2, protowire.VarintType)
		out = protowire.AppendVarint(out, c.rng.U64()>>uint(c.rng.Intn(64)))
	}
	return out
}

func (r *RNG) Pick2(xs ...string) string { return xs[r.Intn(len(xs))] }
func (r *RNG) Pick3(xs ...[]byte) []byte { return xs[r.Intn(len(xs))] }

func streamProto(c *Ctx) {
	c.newCase()
	pool := c.userNamespaces(4)
	// ---- valid round trips, byte exact ----
	for i := 0; i < c.n(600, 20000); i++ {
		nb := c.rng.Range(1, 4)
		specs := make([]blobSpec, nb)
		blobs := make([]*share.Blob, nb)
		var sp []string
		for j := range specs {
			specs[j] = c.randBlob(pool[c.rng.Intn(len(pool))], c.rng.Pick([]int{1, 2, 127, 128, 129, 300, 1000}), c.rng.Chance(2, 5))
			blobs[j], _ = specs[j].blob()
			sp = append(sp, specs[j].String())
		}
		inner := c.rng.Bytes(c.rng.Pick([]int{0, 1, 50, 127, 128, 400}))
		switch c.rng.Intn(10) {
		case 0: // the inner transaction is itself a valid index wrapper encoding
			inner, _ = tx.MarshalIndexWrapper(c.rng.Bytes(c.rng.Range(1, 30)), uint32(c.rng.Intn(100)), uint32(c.rng.Intn(70000)))
		case 1: // ... or a valid blob transaction encoding
			inner, _ = tx.MarshalBlobTx(c.rng.Bytes(c.rng.Range(1, 30)), blobs[0])
		case 2: // ... or a valid blob encoding
			inner, _ = blobs[0].Marshal()
		}
		raw, err := tx.MarshalBlobTx(inner, blobs...)
		op := fmt.Sprintf("proto mblobtx %s %s", hx(inner), strings.Join(sp, ";"))
		c.emit(op, okOr(err, fmt.Sprintf("ok %d:%s", len(raw), dig(raw))))
		c.nontrivial(op)
		c.emit("proto blobtx "+hx(raw), decodedStr(raw))
		c.blobTxOracle(raw, "proto blobtx "+hx(raw))
		c.oracle()
		btx, is, err := tx.UnmarshalBlobTx(raw)
		ok := is && err == nil && bytes.Equal(btx.Tx, inner) && len(btx.Blobs) == nb
		if ok {
			for j := range blobs {
				if blobStr(btx.Blobs[j]) != blobStr(blobs[j]) || !bytes.Equal(btx.Blobs[j].Data(), blobs[j].Data()) {
					ok = false
				}
			}
		}
		if !ok {
			c.violate("C19", "", "UnmarshalBlobTx(MarshalBlobTx(tx, blobs)) does not return the same tx and blobs", "", []string{op})
		}
		if _, isIW := tx.UnmarshalIndexWrapper(raw); isIW {
			c.violate("C19", "", "a blob transaction was recognised as an index wrapper", "", []string{op})
		}
		// no decoder may depend on what was decoded before it: decode a larger "poison" value of each kind,
		// then decode this encoding again and compare with the first result
		if c.rng.Chance(1, 3) {
			c.oracle()
			pb1, _ := share.NewV1Blob(pool[0], bytes.Repeat([]byte{5}, 700), bytes.Repeat([]byte{3}, 20))
			pb2, _ := share.NewV0Blob(pool[len(pool)-1], []byte{1})
			praw, _ := tx.MarshalBlobTx([]byte("poison-inner-tx"), pb1, pb2, pb1, pb2)
			pw, _ := tx.MarshalIndexWrapper([]byte("poison"), 1, 2, 3, 4, 5, 6, 7)
			first := decodedStr(raw)
			_, _, _ = tx.UnmarshalBlobTx(praw)
			_, _ = tx.UnmarshalIndexWrapper(pw)
			if again := decodedStr(raw); again != first {
				c.violate("C19", "", "UnmarshalBlobTx returns a different result for the same bytes after other values were decoded", "", []string{op})
			}
			fw := iwStr(raw)
			_, _ = tx.UnmarshalIndexWrapper(pw)
			if again := iwStr(raw); again != fw {
				c.violate("C19", "", "UnmarshalIndexWrapper returns a different result for the same bytes after other values were decoded", "", []string{op})
			}
		}
		c.emit("proto iw "+hx(raw), iwStr(raw))
		// index wrapper
		idx := make([]uint32, c.rng.Range(0, 4))
		for j := range idx {
			idx[j] = uint32(c.rng.Pick([]int{0, 1, 127, 128, 16383, 16384, 1 << 21, 1<<32 - 1}))
		}
		if c.rng.Chance(1, 8) { // wrap something that is itself a wrapper / blob tx
			inner = raw
			if c.rng.Bool() {
				inner, _ = tx.MarshalIndexWrapper([]byte("inner"), 3, 4)
			}
		}
		wraw, _ := tx.MarshalIndexWrapper(inner, idx...)
		op2 := fmt.Sprintf("proto miw %s %s", hx(inner), dotIfEmpty(natList(idx)))
		c.emit(op2, hx(wraw))
		c.emit("proto iw "+hx(wraw), iwStr(wraw))
		c.emit("proto blobtx "+hx(wraw), decodedStr(wraw))
		c.blobTxOracle(wraw, "proto blobtx "+hx(wraw))
		c.oracle()
		w, okw := tx.UnmarshalIndexWrapper(wraw)
		if !okw || !bytes.Equal(w.Tx, inner) || natList(w.ShareIndexes) != natList(idx) {
			c.violate("C19", "", "UnmarshalIndexWrapper(MarshalIndexWrapper(tx, indexes)) does not return the same value", "", []string{op2})
		}
		if _, isB, _ := tx.UnmarshalBlobTx(wraw); isB {
			c.violate("C19", "", "an index wrapper was recognised as a blob transaction", "", []string{op2})
		}
		// single blob: protobuf and JSON
		b := blobs[0]
		braw, _ := b.Marshal()
		c.emit("proto mblob "+specs[0].String(), hx(braw))
		c.emit("proto blob "+hx(braw), blobUnmarshalStr(braw))
		c.oracle()
		b2, err := share.UnmarshalBlob(braw)
		if err != nil || blobStr(b2) != blobStr(b) || !bytes.Equal(b2.Data(), b.Data()) {
			c.violate("C19", "", "UnmarshalBlob(blob.Marshal()) does not return an equal blob", "", []string{"proto mblob " + specs[0].String()})
		}
		js, err := json.Marshal(b)
		var b3 share.Blob
		if err != nil || json.Unmarshal(js, &b3) != nil || blobStr(&b3) != blobStr(b) || !bytes.Equal(b3.Data(), b.Data()) {
			c.violate("C19", "", "the JSON encoding of a blob does not decode to an equal blob", string(js), []string{"proto mblob " + specs[0].String()})
		}
		// decoding must not depend on what was decoded before: decode a version-1 blob (JSON and protobuf
		// routes) and then decode this blob's JSON again, directly afterwards
		{
			poison, perr := share.NewV1Blob(share.MustNewV0Namespace(bytes.Repeat([]byte{7}, 10)), []byte{1, 2, 3}, bytes.Repeat([]byte{9}, 20))
			if perr == nil && err == nil {
				pjs, _ := json.Marshal(poison)
				praw, _ := poison.Marshal()
				for route := 0; route < 2; route++ {
					c.oracle()
					if route == 0 {
						var tmp share.Blob
						_ = json.Unmarshal(pjs, &tmp)
					} else {
						_, _ = share.UnmarshalBlob(praw)
					}
					var b4 share.Blob
					if json.Unmarshal(js, &b4) != nil || blobStr(&b4) != blobStr(b) || !bytes.Equal(b4.Data(), b.Data()) {
						c.violate("C19", "", fmt.Sprintf("the JSON encoding of a blob decodes differently after another blob was decoded (route %d): got %s, want %s", route, blobStr(&b4), blobStr(b)), string(js), []string{"proto mblob " + specs[0].String()})
					}
					// a version-1 document without signer must still be rejected right after a version-1 decode
					if route == 0 {
						_ = json.Unmarshal(pjs, new(share.Blob))
					} else {
						_, _ = share.UnmarshalBlob(praw)
					}
					noSigner := fmt.Sprintf(`{"namespace_id":"%s","data":"AQ==","share_version":1,"namespace_version":0}`, base64.StdEncoding.EncodeToString(b.Namespace().ID()))
					if json.Unmarshal([]byte(noSigner), new(share.Blob)) == nil {
						c.violate("C19", "", "a share-version-1 JSON blob without signer was accepted after another blob had been decoded", noSigner, nil)
					}
				}
			}
		}
		// share and namespace JSON
		sh, _ := b.ToShares()
		sj, err := json.Marshal(sh[0])
		var s2 share.Share
		if err != nil || json.Unmarshal(sj, &s2) != nil || !bytes.Equal(s2.ToBytes(), sh[0].ToBytes()) {
			c.violate("C19", "", "the JSON encoding of a share does not decode to an equal share", "", []string{"proto mblob " + specs[0].String()})
		}
		nj, err := json.Marshal(b.Namespace())
		var n2 share.Namespace
		if err != nil || json.Unmarshal(nj, &n2) != nil || !bytes.Equal(n2.Bytes(), b.Namespace().Bytes()) {
			c.violate("C19", "", "the JSON encoding of a namespace does not decode to an equal namespace", "", []string{"proto mblob " + specs[0].String()})
		}
		// ---- malformed: mutations of the valid encodings ----
		for m := 0; m < 6; m++ {
			src := [][]byte{raw, wraw, braw}[m%3]
			mut := c.mutate(src)
			if c.rng.Chance(1, 3) {
				mut = c.mutate(mut)
			}
			c.emit("proto blobtx "+hx(mut), decodedStr(mut))
			c.blobTxOracle(mut, "proto blobtx "+hx(mut))
			c.emit("proto iw "+hx(mut), iwStr(mut))
			c.emit("proto blob "+hx(mut), blobUnmarshalStr(mut))
			c.dist("mutated")
		}
	}
	for i := 0; i < c.n(300, 20000); i++ {
		r := c.rng.Bytes(c.rng.Intn(40))
		c.emit("proto blobtx "+hx(r), decodedStr(r))
		c.blobTxOracle(r, "proto blobtx "+hx(r))
		c.emit("proto iw "+hx(r), iwStr(r))
		c.emit("proto blob "+hx(r), blobUnmarshalStr(r))
		c.dist("random-bytes")
	}
	// deep group nesting (protobuf-go's recursion limit is 10000)
	for _, depth := range []int{1, 50, 9999, 10000, 10001, 10002} {
		var g []byte
		for d := 0; d < depth; d++ {
			g = protowire.AppendTag(g, 9, protowire.StartGroupType)
		}
		for d := 0; d < depth; d++ {
			g = protowire.AppendTag(g, 9, protowire.EndGroupType)
		}
		c.emit("proto blob "+hx(g), blobUnmarshalStr(g))
		c.dist("deep-group")
	}
	// ---- acceptance grid ----
	nsClasses := map[string][]byte{
		"user": pool[0].Bytes(), "tx": share.TxNamespace.Bytes(), "tail": share.TailPaddingNamespace.Bytes(),
		"v1": append([]byte{1}, make([]byte, 28)...), "v0-badprefix": append([]byte{0, 1}, make([]byte, 27)...), "empty": nil,
	}
	signers := []struct {
		name string
		s    []byte
	}{{"nil", nil}, {"empty", []byte{}}, {"1", make([]byte, 1)}, {"19", make([]byte, 19)}, {"20", bytes.Repeat([]byte{7}, 20)}, {"21", make([]byte, 21)}, {"22", make([]byte, 22)}}
	for sv := 0; sv <= 300; sv++ {
		for _, sg := range signers {
			for _, dl := range []int{0, 1, 5} {
				for nsName, nsb := range nsClasses {
					if sv > 3 && sv != 127 && sv != 128 && sv != 255 && sv != 256 && sv != 257 && sv != 300 && nsName != "user" {
						continue
					}
					data := bytes.Repeat([]byte{9}, dl)
					wantNewBlob := dl > 0 && len(nsb) > 0 && nsb[0] == 0 && ((sv == 0 && sg.s == nil) || (sv == 1 && len(sg.s) == 20))
					if sv <= 255 {
						spec := blobSpec{ns: nsb, ver: uint8(sv), signer: sg.s, data: data}
						var ns share.Namespace
						if nsb != nil {
							ns = rawNS(nsb)
						}
						_, err := share.NewBlob(ns, data, uint8(sv), sg.s)
						op := "proto newblob " + spec.String()
						out := "err"
						if err == nil {
							nb, _ := share.NewBlob(ns, data, uint8(sv), sg.s)
							out = "ok " + blobStr(nb)
						}
						c.emit(op, out)
						c.nontrivial(op)
						c.oracle()
						if (err == nil) != wantNewBlob {
							c.violate("C19", "", fmt.Sprintf("NewBlob(ns=%s, %d data bytes, share version %d, signer %s) accepted=%v, specified=%v", nsName, dl, sv, sg.name, err == nil, wantNewBlob), "", []string{op})
						}
					}
					// protobuf route (an empty signer decodes to nil: "without signer")
					if nsName == "empty" {
						continue
					}
					pb := &v1.BlobProto{NamespaceId: nsb[1:], NamespaceVersion: uint32(nsb[0]), Data: data, ShareVersion: uint32(sv), Signer: sg.s}
					praw, _ := proto.Marshal(pb)
					_, perr := share.UnmarshalBlob(praw)
					nsValid := nsb[0] == 255 || (nsb[0] == 0 && bytes.Equal(nsb[1:19], make([]byte, 18)))
					wantProto := nsValid && dl > 0 && nsb[0] == 0 && ((sv == 0 && len(sg.s) == 0) || (sv == 1 && len(sg.s) == 20))
					op := "proto blob " + hx(praw)
					c.emit(op, blobUnmarshalStr(praw))
					c.oracle()
					if (perr == nil) != wantProto {
						c.violate("C19", "", fmt.Sprintf("UnmarshalBlob(ns=%s, %d data bytes, share version %d, signer %s) accepted=%v, specified=%v", nsName, dl, sv, sg.name, perr == nil, wantProto), "", []string{op})
					}
					// JSON route
					if sv%16 <= 1 || sv == 127 || sv == 128 {
						js, _ := json.Marshal(pb)
						var jb share.Blob
						jerr := json.Unmarshal(js, &jb)
						// encoding/json omits an empty signer (omitempty), so it decodes to nil: "without signer"
						wantJSON := nsValid && dl > 0 && nsb[0] == 0 && ((sv == 0 && len(sg.s) == 0) || (sv == 1 && len(sg.s) == 20))
						if (jerr == nil) != wantJSON {
							c.violate("C19", "", fmt.Sprintf("Blob.UnmarshalJSON(ns=%s, %d data bytes, share version %d, signer %s) accepted=%v, specified=%v", nsName, dl, sv, sg.name, jerr == nil, wantJSON), string(js), []string{op})
						}
					}
				}
			}
		}
	}
	// blob transactions with several blobs of which exactly one, at every position, is unacceptable
	{
		good := func() *v1.BlobProto {
			b, _ := c.randBlob(pool[c.rng.Intn(len(pool))], c.rng.Pick([]int{1, 50, 500}), c.rng.Bool()).blob()
			return &v1.BlobProto{NamespaceId: b.Namespace().ID(), NamespaceVersion: 0, Data: b.Data(), ShareVersion: uint32(b.ShareVersion()), Signer: b.Signer()}
		}
		bad := []func(pb *v1.BlobProto){
			func(pb *v1.BlobProto) { pb.Data = nil },
			func(pb *v1.BlobProto) { pb.ShareVersion = 0; pb.Signer = bytes.Repeat([]byte{1}, 20) },
			func(pb *v1.BlobProto) { pb.ShareVersion = 1; pb.Signer = nil },
			func(pb *v1.BlobProto) { pb.ShareVersion = 1; pb.Signer = bytes.Repeat([]byte{1}, 19) },
			func(pb *v1.BlobProto) { pb.ShareVersion = 1; pb.Signer = bytes.Repeat([]byte{1}, 21) },
			func(pb *v1.BlobProto) { pb.ShareVersion = 2; pb.Signer = nil },
			func(pb *v1.BlobProto) { pb.ShareVersion = 128; pb.Signer = nil },
			func(pb *v1.BlobProto) { pb.ShareVersion = 256; pb.Signer = nil },
			func(pb *v1.BlobProto) { pb.NamespaceVersion = 1 },
			func(pb *v1.BlobProto) { pb.NamespaceVersion = 255 },
			func(pb *v1.BlobProto) { pb.NamespaceVersion = 256 },
			func(pb *v1.BlobProto) { pb.NamespaceId = pb.NamespaceId[:27] },
			func(pb *v1.BlobProto) { pb.NamespaceId = nil },
			func(pb *v1.BlobProto) { pb.NamespaceId = append([]byte{1}, pb.NamespaceId[1:]...) },
		}
		for bi, mk := range bad {
			for _, k := range []int{2, 3} {
				for pos := 0; pos < k; pos++ {
					msg := &v1.BlobTx{Tx: c.rng.Bytes(c.rng.Range(1, 40)), TypeId: "BLOB"}
					for j := 0; j < k; j++ {
						pb := good()
						if j == pos {
							mk(pb)
						}
						msg.Blobs = append(msg.Blobs, pb)
					}
					raw, err := proto.Marshal(msg)
					if err != nil {
						continue
					}
					op := "proto blobtx " + hx(raw)
					c.emit(op, decodedStr(raw))
					c.blobTxOracle(raw, op)
					c.oracle()
					if _, is, err := tx.UnmarshalBlobTx(raw); is && err == nil {
						c.violate("C19", "", fmt.Sprintf("UnmarshalBlobTx accepted a transaction of %d blobs whose blob %d is unacceptable (kind %d)", k, pos, bi), "", []string{op})
					}
				}
			}
		}
		c.stats.Exhaustive = append(c.stats.Exhaustive, "blob transactions of 2 and 3 blobs with one unacceptable blob (14 kinds) at every position")
	}
	// JSON and binary round trip of every boundary namespace (all reserved constants and their neighbours,
	// other versions, carry chains): a namespace value that exists must survive its own encoding
	for _, nb := range c.boundaryNamespaces() {
		ns, nerr := share.NewNamespaceFromBytes(nb)
		if nerr != nil {
			continue
		}
		c.oracle()
		nj, err := json.Marshal(ns)
		var n2 share.Namespace
		if err != nil || json.Unmarshal(nj, &n2) != nil || !bytes.Equal(n2.Bytes(), ns.Bytes()) {
			c.violate("C19", "", "the JSON encoding of namespace "+hx(nb)+" does not decode to an equal namespace", string(nj), nil)
		}
		type doc struct {
			N share.Namespace `json:"n"`
			X int             `json:"x"`
		}
		dj, err := json.Marshal(doc{N: ns, X: 7})
		var d2 doc
		if err != nil || json.Unmarshal(dj, &d2) != nil || !bytes.Equal(d2.N.Bytes(), ns.Bytes()) || d2.X != 7 {
			c.violate("C19", "", "a JSON document embedding namespace "+hx(nb)+" does not decode to an equal value", string(dj), nil)
		}
	}
	c.stats.Exhaustive = append(c.stats.Exhaustive, "JSON round trip of every boundary namespace (reserved constants, neighbours, other versions)")
	c.stats.Exhaustive = append(c.stats.Exhaustive, "acceptance grid: share version 0..300 x 7 signer shapes x data length {0,1,5} (x 6 namespace classes for the boundary versions) through NewBlob, protobuf and JSON")
	// hand-written JSON documents: explicit empty strings and nulls cannot be produced by json.Marshal (omitempty)
	// but are valid inputs; acceptance must agree with NewBlob on the decoded field values
	{
		nsid := base64.StdEncoding.EncodeToString(pool[0].ID())
		one := base64.StdEncoding.EncodeToString([]byte{1})
		sg20 := base64.StdEncoding.EncodeToString(bytes.Repeat([]byte{7}, 20))
		type jcase struct {
			doc  string
			want bool
			why  string
		}
		var docs []jcase
		for _, sv := range []int{0, 1} {
			for _, signer := range []struct {
				frag string
				n    int // -1 absent/null (nil), else length
			}{{"", -1}, {`,"signer":null`, -1}, {`,"signer":""`, 0}, {`,"signer":"` + sg20 + `"`, 20}} {
				for _, data := range []struct {
					frag string
					n    int
				}{{`,"data":"` + one + `"`, 1}, {`,"data":""`, 0}, {"", 0}} {
					doc := fmt.Sprintf(`{"namespace_id":"%s","namespace_version":0,"share_version":%d%s%s}`, nsid, sv, data.frag, signer.frag)
					want := data.n > 0 && ((sv == 0 && signer.n == -1) || (sv == 1 && signer.n == 20))
					docs = append(docs, jcase{doc, want, fmt.Sprintf("share version %d, signer length %d (-1 = absent), data length %d", sv, signer.n, data.n)})
				}
			}
		}
		// documents that describe no blob at all
		for _, raw := range []string{`null`, `{}`, `[]`, `""`, `0`, `true`, `{"data":null}`, ` null `} {
			docs = append(docs, jcase{raw, false, "the JSON value " + raw})
		}
		// null for a Blob inside a list / a struct is equally no blob: the element must not come out as a usable blob
		{
			c.oracle()
			var list []share.Blob
			err := json.Unmarshal([]byte(`[null]`), &list)
			if err == nil && len(list) == 1 {
				if _, merr := safeMarshalJSON(&list[0]); merr == nil {
					c.violate("C19", "", "the JSON list [null] decodes to a blob that can be re-encoded", "[null]", nil)
				}
			}
			// decoding null into a populated blob must not report success while keeping the old contents
			good, _ := share.NewV0Blob(pool[0], []byte{1, 2, 3})
			keep := *good
			if err := json.Unmarshal([]byte(`null`), &keep); err == nil && blobStr(&keep) == blobStr(good) {
				// encoding/json itself turns a top-level null into a no-op for non-pointer values without calling
				// UnmarshalJSON; that behaviour belongs to the standard library and is the same before and after
				_ = err
			}
		}
		for _, d := range docs {
			c.oracle()
			var jb share.Blob
			err := json.Unmarshal([]byte(d.doc), &jb)
			if (err == nil) != d.want {
				c.violate("C19", "", fmt.Sprintf("Blob.UnmarshalJSON accepted=%v, specified=%v for a hand-written document with %s", err == nil, d.want, d.why), d.doc, nil)
			}
		}
		c.stats.Exhaustive = append(c.stats.Exhaustive, fmt.Sprintf("%d hand-written JSON blob documents (explicit empty / null / absent signer and data x share version)", len(docs)))
	}
	// namespace versions / id lengths through protobuf
	for _, nv := range []uint32{0, 1, 254, 255, 256, 1 << 20} {
		for _, il := range []int{0, 27, 28, 29} {
			pb := &v1.BlobProto{NamespaceId: make([]byte, il), NamespaceVersion: nv, Data: []byte{1}}
			if il > 0 {
				pb.NamespaceId[il-1] = 9
			}
			praw, _ := proto.Marshal(pb)
			c.emit("proto blob "+hx(praw), blobUnmarshalStr(praw))
			_, err := share.UnmarshalBlob(praw)
			c.oracle()
			if (err == nil) != (nv == 0 && il == 28) {
				c.violate("C19", "", fmt.Sprintf("UnmarshalBlob with namespace version %d and a %d-byte id accepted=%v", nv, il, err == nil), "", []string{"proto blob " + hx(praw)})
			}
		}
	}
}
