module verif/translator

go 1.23
