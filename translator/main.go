// Command translator regenerates lean/GoSquare/Gen/Src.lean from the Go source of go-square.
//
// It translates the *integer kernel* of the library - the functions whose parameters, results and
// locals are integers, booleans, errors, slices of integers or structs of integers - from their
// type-checked syntax trees (go/ast + go/types) into pure Lean 4 definitions. Tie/*.lean then proves
// each generated definition equal to the hand-written model definition the property theorems are
// about, so on every run those theorems are re-checked against what the source says now.
//
// Conventions (also in DESIGN.md, "trusted base"):
//   - every Go integer type becomes Lean `Int`; signed `int` arithmetic is unbounded (no overflow at
//     2^63), unsigned arithmetic (uint8/16/32/64, uint) wraps explicitly (`% 2^N`) on + - * << and
//     on conversion; signed / and % are Int.tdiv / Int.tmod (truncation, as in Go);
//   - a type parameter constrained by constraints.Integer is read as `int`;
//   - `error` becomes Bool (true = non-nil); fmt.Errorf / errors.New are `true`, nil is `false`;
//   - a pointer-receiver method on a struct of integers returns the new struct (and its result);
//   - `for cond { body }` becomes a recursive definition with a fuel argument (loopFuel = 128
//     iterations); Tie proves for each loop that the final state falsifies the condition, i.e. that
//     the loop left through its condition and not through the fuel;
//   - primitives (hand-written in Tie/Prims.lean): int(math.Ceil(math.Sqrt(float64(e)))),
//     binary.PutUvarint(buf, e) (its returned length), bitwise & on non-negative operands.
//
// Anything outside this subset makes the function UNSUPPORTED: no definition is emitted, the tie
// for it fails to compile and the check reports the source tie of that function as not established.
package main

import (
	"crypto/sha256"
	"fmt"
	"go/ast"
	"go/build"
	"go/constant"
	"go/importer"
	"go/parser"
	"go/token"
	"go/types"
	"os"
	"path/filepath"
	"sort"
	"strings"
)

type target struct{ dir, recv, name string }

// the functions the model's integer definitions transliterate
var targets = []target{
	{"inclusion", "", "RoundUpByMultipleOf"},
	{"inclusion", "", "RoundUpPowerOfTwo"},
	{"inclusion", "", "RoundDownPowerOfTwo"},
	{"inclusion", "", "getMin"},
	{"inclusion", "", "BlobMinSquareSize"},
	{"inclusion", "", "SubTreeWidth"},
	{"inclusion", "", "NextShareIndex"},
	{"inclusion", "", "MerkleMountainRangeSizes"},
	{"share", "", "delimLen"},
	{"share", "", "CompactSharesNeeded"},
	{"share", "", "SparseSharesNeededWithSigner"},
	{"share", "", "SparseSharesNeeded"},
	{"share", "", "AvailableBytesFromCompactShares"},
	{"share", "", "AvailableBytesFromSparseShares"},
	{"share", "CompactShareCounter", "Add"},
	{"share", "CompactShareCounter", "Revert"},
	{"share", "CompactShareCounter", "Size"},
	{"share", "CompactShareCounter", "Remainder"},
	{"share", "", "NewInfoByte"},
	{"share", "InfoByte", "Version"},
	{"share", "InfoByte", "IsSequenceStart"},
	{"share", "", "ParseInfoByte"},
	{".", "", "RoundUpPowerOfTwo"},
	{".", "", "Size"},
	{".", "", "IsPowerOfTwo"},
	{".", "Builder", "canFit"},
	{".", "Builder", "CurrentSize"},
	{".", "Builder", "SubtreeRootThreshold"},
	{".", "Element", "maxShareOffset"},
	{"share", "", "NewRange"},
	{"share", "", "EmptyRange"},
	{"share", "Range", "IsEmpty"},
	{"share", "Range", "Add"},
}

// structs are translated as their INTEGER PROJECTION: the integer and boolean fields only (a method that
// touches another field is unsupported)
var dirOf = map[string]string{"share": "share", "inclusion": "inclusion", "square": "."}

var structTargets = []target{{"share", "", "CompactShareCounter"}, {"share", "", "Range"}, {".", "", "Builder"}, {".", "", "Element"}}

type pkgInfo struct {
	name  string
	files []*ast.File
	info  *types.Info
	pkg   *types.Package
}

type unsupported struct{ msg string }

func fail(format string, a ...any) { panic(unsupported{fmt.Sprintf(format, a...)}) }

type tr struct {
	p       *pkgInfo
	fset    *token.FileSet
	aux     []string // loop definitions emitted before the function
	fname   string   // Lean name of the function being translated
	nloops  int
	recv    string // receiver variable name if pointer receiver (state is threaded)
	recvTy  string
	results int      // number of Go results
	isPtr   bool     // pointer receiver: results are prefixed by the receiver
	deps    []target // functions of the library this one calls (emitted first, on demand)
}

func main() {
	if len(os.Args) < 2 {
		fmt.Fprintln(os.Stderr, "usage: translator <repo> [-hash]")
		os.Exit(2)
	}
	repo := os.Args[1]
	if len(os.Args) > 2 && os.Args[2] == "-hash" {
		fmt.Println(sourceHash(repo))
		return
	}
	build.Default.Dir = repo
	fset := token.NewFileSet()
	imp := importer.ForCompiler(fset, "source", nil)
	pkgs := map[string]*pkgInfo{}
	for _, dir := range []string{"share", "inclusion", "."} {
		parsed, err := parser.ParseDir(fset, filepath.Join(repo, dir), func(fi os.FileInfo) bool { return !strings.HasSuffix(fi.Name(), "_test.go") }, 0)
		if err != nil {
			fmt.Fprintln(os.Stderr, "parse error:", err)
			os.Exit(1)
		}
		for name, p := range parsed {
			var files []*ast.File
			var names []string
			for fn := range p.Files {
				names = append(names, fn)
			}
			sort.Strings(names)
			for _, fn := range names {
				files = append(files, p.Files[fn])
			}
			info := &types.Info{Types: map[ast.Expr]types.TypeAndValue{}, Defs: map[*ast.Ident]types.Object{}, Uses: map[*ast.Ident]types.Object{}, Selections: map[*ast.SelectorExpr]*types.Selection{}}
			conf := types.Config{Importer: imp, Error: func(err error) {}}
			pkg, _ := conf.Check(name, fset, files, info)
			pkgs[dir] = &pkgInfo{name: name, files: files, info: info, pkg: pkg}
		}
	}
	var out strings.Builder
	out.WriteString("/- GENERATED by /verif/translator from the Go source of the working tree (go/ast + go/types).\n   Do not edit: it is rewritten by ./check whenever the source changes (hash of the source: Gen/Src.hash). -/\n")
	out.WriteString("import GoSquare.Tie.Prims\nset_option linter.unusedVariables false\nnamespace GoSquare.Src\n")
	for _, st := range structTargets {
		p := pkgs[st.dir]
		s, err := transStruct(p, st.name)
		if err != nil {
			out.WriteString(fmt.Sprintf("-- UNSUPPORTED struct %s.%s: %v\n", p.name, st.name, err))
			continue
		}
		out.WriteString(s)
	}
	// every target, preceded by the library functions it calls (translated on demand, once)
	emitted := map[string]error{}
	var emit func(tg target) error
	emit = func(tg target) error {
		p := pkgs[tg.dir]
		if p == nil {
			return fmt.Errorf("package %s not found", tg.dir)
		}
		lname := p.name + "." + tg.name
		if tg.recv != "" {
			lname = p.name + "." + tg.recv + "." + tg.name
		}
		if e, ok := emitted[lname]; ok {
			return e
		}
		emitted[lname] = fmt.Errorf("recursive")
		var err error
		var text string
		var deps []target
		fd := findFunc(p, tg.recv, tg.name)
		if fd == nil {
			err = fmt.Errorf("function not found in the source")
		} else {
			text, deps, err = transFunc(p, fset, fd, lname)
		}
		if err == nil {
			for _, d := range deps {
				if d.dir == tg.dir && d.recv == tg.recv && d.name == tg.name {
					err = fmt.Errorf("recursive function")
					break
				}
				if e := emit(d); e != nil {
					err = fmt.Errorf("calls %s, which is unsupported", d.name)
					break
				}
			}
		}
		if err != nil {
			out.WriteString(fmt.Sprintf("-- UNSUPPORTED %s: %v\n", lname, err))
		} else {
			out.WriteString(text)
		}
		emitted[lname] = err
		return err
	}
	for _, tg := range targets {
		emit(tg)
	}
	out.WriteString("end GoSquare.Src\n")
	fmt.Print(out.String())
}

func sourceHash(repo string) string {
	h := sha256.New()
	for _, dir := range []string{"share", "inclusion", "."} {
		ents, _ := os.ReadDir(filepath.Join(repo, dir))
		for _, e := range ents {
			if e.IsDir() || !strings.HasSuffix(e.Name(), ".go") || strings.HasSuffix(e.Name(), "_test.go") {
				continue
			}
			b, _ := os.ReadFile(filepath.Join(repo, dir, e.Name()))
			fmt.Fprintf(h, "%s/%s %d\n", dir, e.Name(), len(b))
			h.Write(b)
		}
	}
	self, _ := os.ReadFile(os.Args[0])
	h.Write(self)
	return fmt.Sprintf("%x", h.Sum(nil))[:24]
}

func findFunc(p *pkgInfo, recv, name string) *ast.FuncDecl {
	for _, f := range p.files {
		for _, d := range f.Decls {
			fd, ok := d.(*ast.FuncDecl)
			if !ok || fd.Name.Name != name {
				continue
			}
			r := ""
			if fd.Recv != nil && len(fd.Recv.List) == 1 {
				t := fd.Recv.List[0].Type
				if s, ok := t.(*ast.StarExpr); ok {
					t = s.X
				}
				if id, ok := t.(*ast.Ident); ok {
					r = id.Name
				}
			}
			if r == recv {
				return fd
			}
		}
	}
	return nil
}

func transStruct(p *pkgInfo, name string) (s string, err error) {
	defer func() {
		if r := recover(); r != nil {
			if u, ok := r.(unsupported); ok {
				err = fmt.Errorf("%s", u.msg)
				return
			}
			panic(r)
		}
	}()
	obj := p.pkg.Scope().Lookup(name)
	if obj == nil {
		fail("type not found")
	}
	st, ok := obj.Type().Underlying().(*types.Struct)
	if !ok {
		fail("not a struct")
	}
	var b strings.Builder
	fmt.Fprintf(&b, "structure %s.%s where\n", p.name, name)
	for i := 0; i < st.NumFields(); i++ {
		f := st.Field(i)
		if _, ok := intKind(f.Type()); !ok && !isBool(f.Type()) {
			continue
		}
		fmt.Fprintf(&b, "  %s : %s\n", ident(f.Name()), leanType(f.Type()))
	}
	b.WriteString("  deriving DecidableEq, Repr\n")
	return b.String(), nil
}

var reserved = map[string]bool{"end": true, "from": true, "at": true, "show": true, "open": true, "in": true, "fun": true, "then": true, "do": true, "have": true, "with": true, "let": true, "where": true, "instance": true, "class": true, "def": true, "theorem": true, "match": true, "if": true, "else": true, "Type": true, "Prop": true, "prefix": true, "infix": true, "notation": true, "local": true, "mut": true, "by": true, "using": true}

func ident(s string) string {
	if reserved[s] {
		return s + "'"
	}
	return s
}

// ---------------------------------------------------------------- types

type kind struct {
	signed bool
	bits   int // 0 = unbounded (signed int, untyped)
}

func intKind(t types.Type) (kind, bool) {
	if tp, ok := t.(*types.TypeParam); ok {
		_ = tp
		return kind{true, 0}, true // constraints.Integer read as int
	}
	b, ok := t.Underlying().(*types.Basic)
	if !ok {
		return kind{}, false
	}
	switch b.Kind() {
	case types.Int, types.Int64, types.UntypedInt, types.UntypedRune, types.Int32, types.Int16, types.Int8:
		return kind{true, 0}, true
	case types.Uint8:
		return kind{false, 8}, true
	case types.Uint16:
		return kind{false, 16}, true
	case types.Uint32:
		return kind{false, 32}, true
	case types.Uint64, types.Uint, types.Uintptr:
		return kind{false, 64}, true
	}
	return kind{}, false
}

func isBool(t types.Type) bool {
	b, ok := t.Underlying().(*types.Basic)
	return ok && (b.Kind() == types.Bool || b.Kind() == types.UntypedBool)
}

func isError(t types.Type) bool {
	n, ok := t.(*types.Named)
	return ok && n.Obj().Name() == "error" && n.Obj().Pkg() == nil
}

func leanType(t types.Type) string {
	if _, ok := intKind(t); ok {
		return "Int"
	}
	if isBool(t) {
		return "Bool"
	}
	if isError(t) {
		return "Bool"
	}
	if s, ok := t.Underlying().(*types.Slice); ok {
		if _, ok := intKind(s.Elem()); ok {
			return "(List Int)"
		}
	}
	if n, ok := t.(*types.Named); ok {
		if _, ok := n.Underlying().(*types.Struct); ok {
			for _, st := range structTargets {
				if st.name == n.Obj().Name() {
					return n.Obj().Pkg().Name() + "." + n.Obj().Name()
				}
			}
		}
	}
	if p, ok := t.(*types.Pointer); ok {
		return leanType(p.Elem())
	}
	fail("unsupported type %s", t.String())
	return ""
}

func pow2(n int) string {
	v := constant.Shift(constant.MakeInt64(1), token.SHL, uint(n))
	return v.ExactString()
}

// ---------------------------------------------------------------- functions

func transFunc(p *pkgInfo, fset *token.FileSet, fd *ast.FuncDecl, lname string) (s string, deps []target, err error) {
	defer func() {
		if r := recover(); r != nil {
			if u, ok := r.(unsupported); ok {
				err = fmt.Errorf("%s", u.msg)
				return
			}
			panic(r)
		}
	}()
	t := &tr{p: p, fset: fset, fname: lname}
	var params []string
	if fd.Recv != nil {
		f := fd.Recv.List[0]
		rt := p.info.TypeOf(f.Type)
		if _, ok := rt.(*types.Pointer); ok {
			t.isPtr = true
		}
		name := "_recv"
		if len(f.Names) == 1 {
			name = ident(f.Names[0].Name)
		}
		if t.isPtr {
			t.recv = name
			t.recvTy = leanType(rt)
		}
		params = append(params, fmt.Sprintf("(%s : %s)", name, leanType(rt)))
	}
	for _, f := range fd.Type.Params.List {
		ty := leanType(p.info.TypeOf(f.Type))
		for _, n := range f.Names {
			params = append(params, fmt.Sprintf("(%s : %s)", ident(n.Name), ty))
		}
	}
	var resTys []string
	var named []string
	if fd.Type.Results != nil {
		for _, f := range fd.Type.Results.List {
			ty := leanType(p.info.TypeOf(f.Type))
			if len(f.Names) == 0 {
				resTys = append(resTys, ty)
			}
			for _, n := range f.Names {
				resTys = append(resTys, ty)
				named = append(named, ident(n.Name))
			}
		}
	}
	t.results = len(resTys)
	all := resTys
	if t.isPtr {
		all = append([]string{t.recvTy}, resTys...)
	}
	if len(all) == 0 {
		fail("no result")
	}
	resTy := strings.Join(all, " × ")
	// named results start at their zero value
	prelude := ""
	if len(named) > 0 {
		i := 0
		for _, f := range fd.Type.Results.List {
			for _, n := range f.Names {
				prelude += fmt.Sprintf("let %s : %s := %s;\n  ", ident(n.Name), resTys[i], zero(p.info.TypeOf(f.Type)))
				i++
			}
		}
	}
	end := func() string {
		if t.results == 0 && t.isPtr {
			return t.recv
		}
		fail("control reaches the end of a function with results")
		return ""
	}
	body := t.block(fd.Body.List, end, nil)
	var b strings.Builder
	for _, a := range t.aux {
		b.WriteString(a)
	}
	fmt.Fprintf(&b, "def %s %s : %s :=\n  %s%s\n", lname, strings.Join(params, " "), resTy, prelude, body)
	return b.String(), t.deps, nil
}

func zero(t types.Type) string {
	if _, ok := intKind(t); ok {
		return "0"
	}
	if isBool(t) || isError(t) {
		return "false"
	}
	if _, ok := t.Underlying().(*types.Slice); ok {
		return "[]"
	}
	fail("no zero value for %s", t.String())
	return ""
}

// loopCtx: inside a loop body, `after` of the body is the recursive call; a return is wrapped.
type loopCtx struct {
	wrapRet func(string) string // wraps a function-level return value when the loop can return early
}

// block translates stmts; `after` produces the expression for "control falls off the end".
func (t *tr) block(stmts []ast.Stmt, after func() string, lc *loopCtx) string {
	if len(stmts) == 0 {
		return after()
	}
	s := stmts[0]
	rest := func() string { return t.block(stmts[1:], after, lc) }
	switch s := s.(type) {
	case *ast.ReturnStmt:
		v := t.ret(s)
		if lc != nil {
			return lc.wrapRet(v)
		}
		return v
	case *ast.DeclStmt:
		gd := s.Decl.(*ast.GenDecl)
		if gd.Tok != token.VAR {
			fail("unsupported declaration")
		}
		out := ""
		for _, sp := range gd.Specs {
			vs := sp.(*ast.ValueSpec)
			for i, n := range vs.Names {
				ty := t.p.info.TypeOf(n)
				if ty == nil {
					ty = t.p.info.Defs[n].Type()
				}
				val := zero(ty)
				if i < len(vs.Values) {
					val = t.conv(vs.Values[i], ty)
				}
				out += fmt.Sprintf("let %s : %s := %s;\n  ", ident(n.Name), leanType(ty), val)
			}
		}
		return out + rest()
	case *ast.AssignStmt:
		return t.assign(s) + rest()
	case *ast.IncDecStmt:
		op := token.ADD
		if s.Tok == token.DEC {
			op = token.SUB
		}
		ty := t.p.info.TypeOf(s.X)
		v := t.arith(op, t.expr(s.X), "1", ty)
		return t.store(s.X, v) + rest()
	case *ast.IfStmt:
		pre := ""
		if s.Init != nil {
			as, ok := s.Init.(*ast.AssignStmt)
			if !ok {
				fail("unsupported if-init")
			}
			pre = t.assign(as)
		}
		c := t.expr(s.Cond)
		if muts := t.joinVars(s); muts != nil {
			// neither branch returns: the branches yield the variables they assign, the rest follows once
			tuple := muts[0]
			if len(muts) > 1 {
				tuple = "(" + strings.Join(muts, ", ") + ")"
			}
			join := func() string { return tuple }
			noRet := &loopCtx{wrapRet: func(string) string { fail("internal: return in a joined branch"); return "" }}
			thenJ := t.block(s.Body.List, join, noRet)
			elseJ := tuple
			switch e := s.Else.(type) {
			case *ast.BlockStmt:
				elseJ = t.block(e.List, join, noRet)
			case *ast.IfStmt:
				elseJ = t.block([]ast.Stmt{e}, join, noRet)
			}
			return fmt.Sprintf("%slet %s :=\n    (if %s then\n    %s\n    else\n    %s);\n  ", pre, tuple, c, indent(indent(thenJ)), indent(indent(elseJ))) + rest()
		}
		thenE := t.block(s.Body.List, rest, lc)
		var elseE string
		switch e := s.Else.(type) {
		case nil:
			elseE = rest()
		case *ast.BlockStmt:
			elseE = t.block(e.List, rest, lc)
		case *ast.IfStmt:
			elseE = t.block([]ast.Stmt{e}, rest, lc)
		default:
			fail("unsupported else")
		}
		return fmt.Sprintf("%s(if %s then\n  %s\n  else\n  %s)", pre, c, indent(thenE), indent(elseE))
	case *ast.SwitchStmt:
		if s.Tag != nil || s.Init != nil {
			fail("switch with a tag")
		}
		var build func(i int) string
		build = func(i int) string {
			if i == len(s.Body.List) {
				return rest()
			}
			cc := s.Body.List[i].(*ast.CaseClause)
			if cc.List == nil {
				if i != len(s.Body.List)-1 {
					fail("default is not the last case")
				}
				return t.block(cc.Body, rest, lc)
			}
			var cs []string
			for _, e := range cc.List {
				cs = append(cs, t.expr(e))
			}
			return fmt.Sprintf("(if %s then\n  %s\n  else\n  %s)", strings.Join(cs, " || "), indent(t.block(cc.Body, rest, lc)), indent(build(i+1)))
		}
		return build(0)
	case *ast.ForStmt:
		if s.Init != nil || s.Post != nil || s.Cond == nil {
			fail("only `for cond { }` loops are supported")
		}
		return t.loop(s, rest, lc)
	case *ast.BlockStmt:
		return t.block(append(append([]ast.Stmt{}, s.List...), stmts[1:]...), after, lc)
	case *ast.ExprStmt:
		fail("unsupported expression statement")
	}
	fail("unsupported statement %T", s)
	return ""
}

// joinVars returns the variables (declared before the if statement) that its branches assign, or nil
// if a branch contains a return / loop (then the continuation is duplicated into the branches instead).
func (t *tr) joinVars(s *ast.IfStmt) []string {
	bad := false
	var muts []string
	seen := map[string]bool{}
	noteRoot := func(l ast.Expr) {
		root := l
		if se, ok := l.(*ast.SelectorExpr); ok {
			root = se.X
		}
		id, ok := root.(*ast.Ident)
		if !ok || id.Name == "_" {
			return
		}
		if v, ok := t.p.info.Uses[id].(*types.Var); ok && v.Pos() < s.Pos() {
			if !seen[v.Name()] {
				seen[v.Name()] = true
				muts = append(muts, ident(v.Name()))
			}
		}
	}
	visit := func(n ast.Node) bool {
		switch n := n.(type) {
		case *ast.ReturnStmt, *ast.ForStmt, *ast.RangeStmt, *ast.BranchStmt, *ast.SwitchStmt:
			bad = true
		case *ast.AssignStmt:
			for _, l := range n.Lhs {
				noteRoot(l)
			}
		case *ast.IncDecStmt:
			noteRoot(n.X)
		}
		return true
	}
	ast.Inspect(s.Body, visit)
	if s.Else != nil {
		ast.Inspect(s.Else, visit)
	}
	if bad || len(muts) == 0 {
		return nil
	}
	return muts
}

func indent(s string) string { return strings.ReplaceAll(s, "\n", "\n  ") }

func (t *tr) ret(s *ast.ReturnStmt) string {
	var vals []string
	sig := 0
	_ = sig
	if len(s.Results) == 0 && t.results > 0 {
		fail("bare return with named results")
	}
	for _, e := range s.Results {
		ty := t.p.info.TypeOf(e)
		if _, ok := ty.(*types.Tuple); ok {
			if len(s.Results) != 1 || t.isPtr {
				fail("return of a multi-value call")
			}
			return t.expr(e)
		}
		vals = append(vals, t.expr(e))
	}
	if t.isPtr {
		vals = append([]string{t.recv}, vals...)
	}
	if len(vals) == 1 {
		return vals[0]
	}
	return "(" + strings.Join(vals, ", ") + ")"
}

// store produces "let <target> := v\n  " for an identifier or a field of the pointer receiver.
func (t *tr) store(lhs ast.Expr, v string) string {
	switch l := lhs.(type) {
	case *ast.Ident:
		if l.Name == "_" {
			return fmt.Sprintf("let _ := %s;\n  ", v)
		}
		return fmt.Sprintf("let %s := %s;\n  ", ident(l.Name), v)
	case *ast.SelectorExpr:
		if x, ok := l.X.(*ast.Ident); ok && t.isPtr && ident(x.Name) == t.recv {
			return fmt.Sprintf("let %s := { %s with %s := %s };\n  ", t.recv, t.recv, ident(l.Sel.Name), v)
		}
	}
	fail("unsupported assignment target")
	return ""
}

func (t *tr) assign(s *ast.AssignStmt) string {
	if len(s.Lhs) > 1 && len(s.Rhs) == 1 {
		// a, b := f(...)
		var names []string
		for _, l := range s.Lhs {
			id, ok := l.(*ast.Ident)
			if !ok {
				fail("unsupported multi-assignment target")
			}
			if id.Name == "_" {
				names = append(names, "_")
			} else {
				names = append(names, ident(id.Name))
			}
		}
		return fmt.Sprintf("let (%s) := %s;\n  ", strings.Join(names, ", "), t.expr(s.Rhs[0]))
	}
	if len(s.Lhs) != len(s.Rhs) {
		fail("unsupported assignment shape")
	}
	if len(s.Lhs) > 1 {
		fail("parallel assignment")
	}
	lhs, rhs := s.Lhs[0], s.Rhs[0]
	lty := t.p.info.TypeOf(lhs)
	if id, ok := lhs.(*ast.Ident); ok && lty == nil {
		if o := t.p.info.Defs[id]; o != nil {
			lty = o.Type()
		}
	}
	// buffers handed to binary.PutUvarint are not modelled: `x := make([]byte, n)` is dropped
	if call, ok := rhs.(*ast.CallExpr); ok {
		if id, ok := call.Fun.(*ast.Ident); ok && id.Name == "make" {
			if sl, ok := lty.Underlying().(*types.Slice); ok {
				if b, ok := sl.Elem().Underlying().(*types.Basic); ok && b.Kind() == types.Uint8 {
					return ""
				}
			}
		}
	}
	switch s.Tok {
	case token.DEFINE, token.ASSIGN:
		return t.store(lhs, t.conv(rhs, lty))
	}
	ops := map[token.Token]token.Token{token.ADD_ASSIGN: token.ADD, token.SUB_ASSIGN: token.SUB, token.MUL_ASSIGN: token.MUL, token.QUO_ASSIGN: token.QUO, token.REM_ASSIGN: token.REM, token.SHL_ASSIGN: token.SHL, token.SHR_ASSIGN: token.SHR}
	op, ok := ops[s.Tok]
	if !ok {
		fail("unsupported assignment operator %s", s.Tok)
	}
	if op == token.SHL || op == token.SHR {
		return t.store(lhs, t.shift(op, t.expr(lhs), rhs, lty))
	}
	return t.store(lhs, t.arith(op, t.expr(lhs), t.conv(rhs, lty), lty))
}

// conv translates e for use at type ty (constants adapt to ty)
func (t *tr) conv(e ast.Expr, ty types.Type) string { return t.expr(e) }

func (t *tr) arith(op token.Token, a, b string, ty types.Type) string {
	k, ok := intKind(ty)
	if !ok {
		fail("arithmetic on a non-integer type %s", ty)
	}
	wrap := func(s string) string {
		if k.signed {
			return s
		}
		return fmt.Sprintf("(%s %% %s)", s, pow2(k.bits))
	}
	switch op {
	case token.ADD:
		return wrap(fmt.Sprintf("(%s + %s)", a, b))
	case token.SUB:
		return wrap(fmt.Sprintf("(%s - %s)", a, b))
	case token.MUL:
		return wrap(fmt.Sprintf("(%s * %s)", a, b))
	case token.QUO:
		if k.signed {
			return fmt.Sprintf("(Int.tdiv %s %s)", a, b)
		}
		return fmt.Sprintf("(%s / %s)", a, b)
	case token.REM:
		if k.signed {
			return fmt.Sprintf("(Int.tmod %s %s)", a, b)
		}
		return fmt.Sprintf("(%s %% %s)", a, b)
	case token.AND:
		return fmt.Sprintf("(Prims.band %s %s)", a, b)
	}
	fail("unsupported operator %s", op)
	return ""
}

func (t *tr) shift(op token.Token, a string, count ast.Expr, ty types.Type) string {
	tv := t.p.info.Types[count]
	if tv.Value == nil {
		fail("shift by a non-constant")
	}
	n, _ := constant.Int64Val(tv.Value)
	k, _ := intKind(ty)
	if op == token.SHL {
		s := fmt.Sprintf("(%s * %s)", a, pow2(int(n)))
		if !k.signed {
			s = fmt.Sprintf("(%s %% %s)", s, pow2(k.bits))
		}
		return s
	}
	return fmt.Sprintf("(%s / %s)", a, pow2(int(n)))
}

func (t *tr) expr(e ast.Expr) string {
	tv, ok := t.p.info.Types[e]
	if ok && tv.Value != nil {
		switch tv.Value.Kind() {
		case constant.Int:
			s := tv.Value.ExactString()
			if strings.HasPrefix(s, "-") {
				return "(" + s + ")"
			}
			return s
		case constant.Bool:
			if constant.BoolVal(tv.Value) {
				return "true"
			}
			return "false"
		}
	}
	switch e := e.(type) {
	case *ast.ParenExpr:
		return t.expr(e.X)
	case *ast.Ident:
		if e.Name == "nil" {
			return "false"
		}
		if e.Name == "true" || e.Name == "false" {
			return e.Name
		}
		return ident(e.Name)
	case *ast.SelectorExpr:
		// field of a struct value
		if sel, ok := t.p.info.Selections[e]; ok && sel.Kind() == types.FieldVal {
			if _, ok := intKind(sel.Type()); !ok && !isBool(sel.Type()) {
				fail("field %s is outside the integer projection of its struct", e.Sel.Name)
			}
			return fmt.Sprintf("%s.%s", t.expr(e.X), ident(e.Sel.Name))
		}
		fail("unsupported selector %s", e.Sel.Name)
	case *ast.UnaryExpr:
		switch e.Op {
		case token.NOT:
			return fmt.Sprintf("(!%s)", t.expr(e.X))
		case token.SUB:
			k, _ := intKind(t.p.info.TypeOf(e))
			if !k.signed {
				fail("negation of an unsigned value")
			}
			return fmt.Sprintf("(-%s)", t.expr(e.X))
		}
		fail("unsupported unary operator %s", e.Op)
	case *ast.BinaryExpr:
		a, b := t.expr(e.X), t.expr(e.Y)
		xt := t.p.info.TypeOf(e.X)
		switch e.Op {
		case token.LAND:
			return fmt.Sprintf("(%s && %s)", a, b)
		case token.LOR:
			return fmt.Sprintf("(%s || %s)", a, b)
		case token.EQL, token.NEQ:
			if isError(xt) || isError(t.p.info.TypeOf(e.Y)) {
				// err == nil / err != nil
				v := a
				if id, ok := e.X.(*ast.Ident); ok && id.Name == "nil" {
					v = b
				}
				if e.Op == token.EQL {
					return fmt.Sprintf("(!%s)", v)
				}
				return v
			}
			if isBool(xt) {
				if e.Op == token.EQL {
					return fmt.Sprintf("(%s == %s)", a, b)
				}
				return fmt.Sprintf("(%s != %s)", a, b)
			}
			if _, ok := intKind(xt); !ok {
				fail("comparison of non-integers")
			}
			if e.Op == token.EQL {
				return fmt.Sprintf("(decide (%s = %s))", a, b)
			}
			return fmt.Sprintf("(decide (%s ≠ %s))", a, b)
		case token.LSS, token.LEQ, token.GTR, token.GEQ:
			if _, ok := intKind(xt); !ok {
				fail("comparison of non-integers")
			}
			sym := map[token.Token]string{token.LSS: "<", token.LEQ: "≤", token.GTR: ">", token.GEQ: "≥"}[e.Op]
			return fmt.Sprintf("(decide (%s %s %s))", a, sym, b)
		case token.SHL, token.SHR:
			return t.shift(e.Op, a, e.Y, t.p.info.TypeOf(e))
		}
		return t.arith(e.Op, a, b, t.p.info.TypeOf(e))
	case *ast.CallExpr:
		return t.call(e)
	case *ast.CompositeLit:
		ty := t.p.info.TypeOf(e)
		lt := leanType(ty)
		st, ok := ty.Underlying().(*types.Struct)
		if !ok {
			fail("unsupported composite literal")
		}
		vals := map[string]string{}
		for i, el := range e.Elts {
			if kv, ok := el.(*ast.KeyValueExpr); ok {
				vals[kv.Key.(*ast.Ident).Name] = t.expr(kv.Value)
			} else {
				vals[st.Field(i).Name()] = t.expr(el)
			}
		}
		var fs []string
		for i := 0; i < st.NumFields(); i++ {
			f := st.Field(i)
			if _, ok := intKind(f.Type()); !ok && !isBool(f.Type()) {
				if _, given := vals[f.Name()]; given {
					fail("composite literal sets a field outside the integer projection")
				}
				continue
			}
			v, given := vals[f.Name()]
			if !given {
				v = zero(f.Type())
			}
			fs = append(fs, fmt.Sprintf("%s := %s", ident(f.Name()), v))
		}
		return fmt.Sprintf("({ %s } : %s)", strings.Join(fs, ", "), lt)
	}
	fail("unsupported expression %T", e)
	return ""
}

func (t *tr) call(e *ast.CallExpr) string {
	// conversion T(x)
	if tv, ok := t.p.info.Types[e.Fun]; ok && tv.IsType() {
		to := tv.Type
		if len(e.Args) != 1 {
			fail("bad conversion")
		}
		// int(math.Ceil(math.Sqrt(float64(x))))
		if x, ok := sqrtPattern(e.Args[0]); ok {
			return fmt.Sprintf("(Prims.ceilSqrt %s)", t.expr(x))
		}
		from := t.p.info.TypeOf(e.Args[0])
		kt, ok1 := intKind(to)
		kf, ok2 := intKind(from)
		if !ok1 || !ok2 {
			fail("unsupported conversion %s -> %s", from, to)
		}
		x := t.expr(e.Args[0])
		if kt.signed {
			return x // unsigned -> int: identity (values ≥ 2^63 are outside every stated domain)
		}
		if !kf.signed && kf.bits <= kt.bits {
			return x
		}
		return fmt.Sprintf("(%s %% %s)", x, pow2(kt.bits))
	}
	var args []string
	fname := ""
	switch f := e.Fun.(type) {
	case *ast.Ident:
		fname = f.Name
		switch fname {
		case "append":
			if len(e.Args) != 2 || e.Ellipsis != token.NoPos {
				fail("unsupported append")
			}
			return fmt.Sprintf("(%s ++ [%s])", t.expr(e.Args[0]), t.expr(e.Args[1]))
		case "len", "cap", "make", "copy", "new", "panic":
			fail("builtin %s", fname)
		}
		obj := t.p.info.Uses[f]
		if fn, ok := obj.(*types.Func); ok && fn.Pkg() == t.p.pkg {
			for _, a := range e.Args {
				args = append(args, t.expr(a))
			}
			t.deps = append(t.deps, target{dirOf[t.p.name], "", fname})
			return fmt.Sprintf("(%s.%s %s)", t.p.name, fname, strings.Join(args, " "))
		}
		fail("call of %s", fname)
	case *ast.IndexExpr: // explicit instantiation f[T](x)
		if id, ok := f.X.(*ast.Ident); ok {
			if fn, ok := t.p.info.Uses[id].(*types.Func); ok && fn.Pkg() == t.p.pkg {
				for _, a := range e.Args {
					args = append(args, t.expr(a))
				}
				t.deps = append(t.deps, target{dirOf[t.p.name], "", id.Name})
				return fmt.Sprintf("(%s.%s %s)", t.p.name, id.Name, strings.Join(args, " "))
			}
		}
		fail("unsupported generic call")
	case *ast.SelectorExpr:
		if x, ok := f.X.(*ast.Ident); ok {
			if pn, ok := t.p.info.Uses[x].(*types.PkgName); ok {
				path := pn.Imported().Path()
				switch {
				case path == "fmt" && f.Sel.Name == "Errorf", path == "errors" && f.Sel.Name == "New":
					return "true"
				case path == "encoding/binary" && f.Sel.Name == "PutUvarint":
					return fmt.Sprintf("(Prims.uvarintLen %s)", t.expr(e.Args[1]))
				case strings.HasPrefix(path, "github.com/celestiaorg/go-square"):
					for _, a := range e.Args {
						args = append(args, t.expr(a))
					}
					t.deps = append(t.deps, target{dirOf[pn.Imported().Name()], "", f.Sel.Name})
					return fmt.Sprintf("(%s.%s %s)", pn.Imported().Name(), f.Sel.Name, strings.Join(args, " "))
				}
				fail("call of %s.%s", path, f.Sel.Name)
			}
		}
		// method call on a value: recv.M(args) with a value receiver
		if sel, ok := t.p.info.Selections[f]; ok && sel.Kind() == types.MethodVal {
			rt := sel.Recv()
			if _, isPtr := rt.(*types.Pointer); isPtr {
				fail("method call through a pointer")
			}
			if n, ok := rt.(*types.Named); ok {
				args = append(args, t.expr(f.X))
				for _, a := range e.Args {
					args = append(args, t.expr(a))
				}
				t.deps = append(t.deps, target{dirOf[n.Obj().Pkg().Name()], n.Obj().Name(), f.Sel.Name})
				return fmt.Sprintf("(%s.%s.%s %s)", n.Obj().Pkg().Name(), n.Obj().Name(), f.Sel.Name, strings.Join(args, " "))
			}
		}
		fail("unsupported call %s", f.Sel.Name)
	}
	fail("unsupported call")
	return ""
}

func sqrtPattern(e ast.Expr) (ast.Expr, bool) {
	isCall := func(e ast.Expr, pkg, name string) (ast.Expr, bool) {
		c, ok := e.(*ast.CallExpr)
		if !ok || len(c.Args) != 1 {
			return nil, false
		}
		switch f := c.Fun.(type) {
		case *ast.SelectorExpr:
			if x, ok := f.X.(*ast.Ident); ok && x.Name == pkg && f.Sel.Name == name {
				return c.Args[0], true
			}
		case *ast.Ident:
			if pkg == "" && f.Name == name {
				return c.Args[0], true
			}
		}
		return nil, false
	}
	a, ok := isCall(e, "math", "Ceil")
	if !ok {
		return nil, false
	}
	b, ok := isCall(a, "math", "Sqrt")
	if !ok {
		return nil, false
	}
	return isCall(b, "", "float64")
}

// ---------------------------------------------------------------- loops

// loop emits an auxiliary recursive definition for `for cond { body }`.
func (t *tr) loop(s *ast.ForStmt, rest func() string, outer *loopCtx) string {
	if outer != nil {
		fail("nested loops")
	}
	t.nloops++
	lname := fmt.Sprintf("%s.loop%d", t.fname, t.nloops)
	// variables of the enclosing function used in the loop, and those assigned in it
	used := map[*types.Var]bool{}
	assigned := map[*types.Var]bool{}
	declared := map[*types.Var]bool{}
	hasRet := false
	var order []*types.Var
	note := func(v *types.Var) {
		if !used[v] {
			used[v] = true
			order = append(order, v)
		}
	}
	ast.Inspect(s, func(n ast.Node) bool {
		switch n := n.(type) {
		case *ast.Ident:
			if v, ok := t.p.info.Uses[n].(*types.Var); ok && !v.IsField() && v.Pkg() == t.p.pkg && v.Parent() != t.p.pkg.Scope() {
				note(v)
			}
			if v, ok := t.p.info.Defs[n].(*types.Var); ok {
				declared[v] = true
			}
		case *ast.AssignStmt:
			for _, l := range n.Lhs {
				root := l
				if se, ok := l.(*ast.SelectorExpr); ok {
					root = se.X
				}
				if id, ok := root.(*ast.Ident); ok {
					if v, ok := t.p.info.Uses[id].(*types.Var); ok {
						assigned[v] = true
					}
				}
			}
		case *ast.IncDecStmt:
			root := n.X
			if se, ok := root.(*ast.SelectorExpr); ok {
				root = se.X
			}
			if id, ok := root.(*ast.Ident); ok {
				if v, ok := t.p.info.Uses[id].(*types.Var); ok {
					assigned[v] = true
				}
			}
		case *ast.ReturnStmt:
			hasRet = true
		}
		return true
	})
	var params, args, muts []string
	var mutTys []string
	for _, v := range order {
		if declared[v] {
			continue
		}
		params = append(params, fmt.Sprintf("(%s : %s)", ident(v.Name()), leanType(v.Type())))
		args = append(args, ident(v.Name()))
		if assigned[v] {
			muts = append(muts, ident(v.Name()))
			mutTys = append(mutTys, leanType(v.Type()))
		}
	}
	if len(muts) == 0 {
		fail("loop without state")
	}
	stTy := strings.Join(mutTys, " × ")
	stVal := muts[0]
	if len(muts) > 1 {
		stVal = "(" + strings.Join(muts, ", ") + ")"
	}
	// result type of the enclosing function (for early returns)
	retTy := ""
	resTy := stTy
	exit := stVal
	lc := &loopCtx{wrapRet: func(v string) string { fail("return inside a loop"); return "" }}
	if hasRet {
		retTy = t.funcResultType()
		resTy = fmt.Sprintf("Sum (%s) (%s)", retTy, stTy)
		exit = fmt.Sprintf("(Sum.inr %s)", stVal)
		lc.wrapRet = func(v string) string { return fmt.Sprintf("(Sum.inl %s)", v) }
	}
	again := func() string { return fmt.Sprintf("%s fuel %s", lname, strings.Join(args, " ")) }
	body := t.block(s.Body.List, again, lc)
	cond := t.expr(s.Cond)
	def := fmt.Sprintf("def %s (fuel : Nat) %s : %s :=\n  match fuel with\n  | 0 => %s\n  | fuel + 1 =>\n  (if %s then\n  %s\n  else %s)\n",
		lname, strings.Join(params, " "), resTy, exit, cond, indent(body), exit)
	t.aux = append(t.aux, def)
	call := fmt.Sprintf("%s Prims.loopFuel %s", lname, strings.Join(args, " "))
	if hasRet {
		return fmt.Sprintf("match %s with\n  | Sum.inl r => r\n  | Sum.inr %s =>\n  %s", call, stVal, rest())
	}
	return fmt.Sprintf("let %s := %s;\n  %s", stVal, call, rest())
}

func (t *tr) funcResultType() string {
	fd := findFuncByLeanName(t.p, t.fname)
	var resTys []string
	for _, f := range fd.Type.Results.List {
		ty := leanType(t.p.info.TypeOf(f.Type))
		n := len(f.Names)
		if n == 0 {
			n = 1
		}
		for i := 0; i < n; i++ {
			resTys = append(resTys, ty)
		}
	}
	if t.isPtr {
		resTys = append([]string{t.recvTy}, resTys...)
	}
	return strings.Join(resTys, " × ")
}

func findFuncByLeanName(p *pkgInfo, lname string) *ast.FuncDecl {
	parts := strings.Split(lname, ".")
	if len(parts) == 3 {
		return findFunc(p, parts[1], parts[2])
	}
	return findFunc(p, "", parts[1])
}
